"""C05 — glyph outlines and advances reported are the font's true ones."""
import io, os
from fractions import Fraction as F
from lib.ser import Ok, Err, res, Raw, Opt
from lib.deser import decode
from lib import corpus, geom as G
from vcheck import Corr, Sweep

RULE = ("iup_delta: contours of 1-9 points with every pattern of explicit/inferred deltas, coincident reference coordinates, rational "
        "values; sweeps: every glyph of corpus fonts (TrueType, CFF, CFF2; static and variable) and generated fonts at the default, axis "
        "extremes, random, avar-remapped and out-of-range locations: glyphSet.draw / width against HarfBuzz outlines and advances.")
TRUSTED = ["uharfbuzz 0.52 as the independent OpenType implementation"]
ASSUMPTIONS = ["only the inferred-delta rule is modelled in Coq; outline decoding, components, blending and avar are covered by the HarfBuzz sweep"]

def N(tier, q, t): return q if tier == "quick" else t

def correspondences(tier, rng):
    from fontTools.varLib import iup
    n = N(tier, 1200, 20000)
    cases = []
    for _ in range(n):
        k = rng.randint(1, 9)
        ends = sorted(set([k - 1] + ([rng.randint(0, k - 1)] if k > 2 and rng.chance(40) else [])))
        coords = [(F(rng.randint(-6, 6)), F(rng.randint(-6, 6), rng.choice([1, 2]))) for _ in range(k + 4)]
        deltas = [(F(rng.randint(-5, 5)), F(rng.randint(-5, 5), rng.choice([1, 3]))) if rng.chance(50) else None for _ in range(k + 4)]
        cases.append((deltas, coords, ends))
    enc = lambda x: ([Opt(d, some=d is not None) for d in x[0]], x[1], x[2])
    def impl(x):
        d, c, e = x
        return [tuple(F(v) for v in p) for p in iup.iup_delta(list(d), list(c), list(e))]
    def spec_iup(deltas, coords, ends):
        """the inferred deltas as the OpenType gvar text defines them, written independently of iup.py: per contour, per axis, an
        untouched point takes its delta from the nearest touched points before and after it around the contour"""
        out_ = list(deltas); start = 0; n_ = len(coords)
        for end in list(ends) + [n_ - 4, n_ - 3, n_ - 2, n_ - 1]:          # the four phantom points are contours of their own
            idx = list(range(start, end + 1)); start = end + 1
            touched = [i for i in idx if deltas[i] is not None]
            if not touched:
                for i in idx: out_[i] = (F(0), F(0))
                continue
            if len(touched) == len(idx): continue
            for i in idx:
                if deltas[i] is not None: continue
                before = [t for t in touched if t < i]; after = [t for t in touched if t > i]
                p_ = before[-1] if before else touched[-1]; q_ = after[0] if after else touched[0]
                res_ = []
                for ax in (0, 1):
                    c, c1, c2 = coords[i][ax], coords[p_][ax], coords[q_][ax]; d1, d2 = deltas[p_][ax], deltas[q_][ax]
                    if c1 == c2: res_.append(d1 if d1 == d2 else F(0))
                    else:
                        if c1 > c2: c1, c2, d1, d2 = c2, c1, d2, d1
                        if c <= c1: res_.append(d1)
                        elif c >= c2: res_.append(d2)
                        else: res_.append(d1 + (c - c1) * (d2 - d1) / (c2 - c1))
                out_[i] = tuple(res_)
        return out_
    def oracle_iup(x):
        d, c, e = x
        got = [tuple(F(v) for v in p) for p in iup.iup_delta(list(d), list(c), list(e))]
        want = [tuple(F(v) for v in p) for p in spec_iup(list(d), list(c), list(e))]
        if got != want:
            k_ = [i for i in range(len(got)) if got[i] != want[i]][0]
            return "point %d: iup_delta gives %r, the specification %r (deltas %r coords %r ends %r)" % (k_, got[k_], want[k_], d, c, e)
        return None
    out = [Corr("iup_delta", cases, impl, enc=enc, oracle=oracle_iup)]
    # ---- delta-set index maps (HVAR / VVAR advance maps): entry format choice, packing and unpacking of the indices
    from fontTools.ttLib.tables import otTables as ot
    from fontTools.ttLib.tables.otBase import OTTableWriter, OTTableReader
    from fontTools.ttLib import TTFont
    def gen_map():
        k = rng.choice([0, 1, 1, 2, 5, 20])
        innermax = rng.choice([0, 1, 2, 3, 7, 8, 15, 16, 255, 256, 4095, 4096, 32767, 32768, 65535])
        outermax = rng.choice([0, 0, 1, 2, 15, 16, 255, 256, 4095, 65535])
        m = [(rng.randint(0, outermax) << 16) | rng.randint(0, innermax) for _ in range(k)]
        if m and rng.chance(50): m[rng.below(len(m))] = (outermax << 16) | innermax           # the extremes themselves
        if rng.chance(3): m.append(0xFFFFFFFF)
        if rng.chance(2): m.append(1 << 32)                                                      # does not fit a variation index
        return m
    mcases = [gen_map() for _ in range(N(tier, 1500, 20000))]
    def impl_fmt(m): return res(lambda: ot.DeltaSetIndexMap.getEntryFormat(list(m)))
    out.append(Corr("getEntryFormat", mcases, impl_fmt, compare=lambda x, i_, m_: (i_[0] == 0 and list(i_[1:]) == list(m_))))
    def impl_dsim_compile(m):
        def go():
            t = ot.DeltaSetIndexMap(); t.mapping = list(m)
            w = OTTableWriter(); t.compile(w, TTFont()); return list(w.getAllData())
        return res(go)
    def oracle_dsim(m):
        """the PROPERTY on the implementation: the compiled map decompiles to the same indices"""
        if any(v >= 1 << 32 for v in m): return None          # not a variation index: the masks drop the excess bits silently
        r = impl_dsim_compile(m)
        if isinstance(r, Err): return None
        t = ot.DeltaSetIndexMap(); t.decompile(OTTableReader(bytes(r.v)), TTFont())
        return None if list(t.mapping) == list(m) else "index map %r reads back as %r" % ([hex(v) for v in m], [hex(v) for v in t.mapping])
    out.append(Corr("dsim_compile", mcases, impl_dsim_compile, oracle=oracle_dsim))
    dcases = []
    for m in mcases:
        r = impl_dsim_compile(m)
        if not isinstance(r, Err): dcases.append(list(r.v))
    def impl_dsim_decompile(b):
        def go():
            t = ot.DeltaSetIndexMap(); t.decompile(OTTableReader(bytes(b)), TTFont()); return list(t.mapping)
        return res(go)
    out.append(Corr("dsim_decompile", dcases, impl_dsim_decompile))
    return out

# ------------------------------------------------------------------ sweeps
def two_axis_font():
    """glyf/gvar font, 2 axes; glyph A: first tuple with explicit deltas for all points, second tuple with inferred deltas"""
    from fontTools.fontBuilder import FontBuilder
    from fontTools.pens.ttGlyphPen import TTGlyphPen
    from fontTools.ttLib.tables.TupleVariation import TupleVariation
    fb = FontBuilder(1000, isTTF=True)
    order = [".notdef", "A", "B", "C"]
    fb.setupGlyphOrder(order); fb.setupCharacterMap({65: "A", 66: "B", 67: "C"})
    def poly(pts):
        pen = TTGlyphPen(None); pen.moveTo(pts[0])
        for p in pts[1:]: pen.lineTo(p)
        pen.closePath(); return pen.glyph()
    glyphs = {".notdef": poly([(0, 0), (400, 0), (400, 600), (0, 600)]), "A": poly([(0, 0), (200, 0), (400, 0), (400, 500), (200, 700), (0, 500)]),
              "B": poly([(50, 0), (300, 0), (300, 300), (50, 300)])}
    pen = TTGlyphPen(glyphs); pen.addComponent("B", (1, 0, 0, 1, 100, 50)); pen.addComponent("A", (0.5, 0, 0, 0.5, 10, 10)); glyphs["C"] = pen.glyph()
    fb.setupGlyf(glyphs)
    fb.setupHorizontalMetrics({".notdef": (500, 0), "A": (500, 0), "B": (400, 50), "C": (600, 10)})
    fb.setupHorizontalHeader(ascent=800, descent=-200); fb.setupNameTable({"familyName": "V2", "styleName": "R"}); fb.setupOS2(); fb.setupPost()
    fb.setupFvar([("wght", 100, 400, 900, "Weight"), ("wdth", 50, 100, 200, "Width")], [])
    var = {
        "A": [TupleVariation({"wght": (0, 1, 1)}, [(0, 0), (70, 0), (40, 0), (40, 30), (0, 60), (-20, 30), (0, 0), (40, 0), (0, 0), (0, 0)]),
              TupleVariation({"wdth": (0, 1, 1)}, [(0, 0), None, (100, 0), None, None, (0, 0), (0, 0), (100, 0), (0, 0), (0, 0)]),
              TupleVariation({"wght": (0, 1, 1), "wdth": (0, 1, 1)}, [None, (10, 10), None, (5, 5), None, None, (0, 0), (20, 0), (0, 0), (0, 0)]),
              TupleVariation({"wght": (-1, -1, 0)}, [(10, 0), None, None, None, (0, -50), None, (0, 0), (-30, 0), (0, 0), (0, 0)])],
        "B": [TupleVariation({"wght": (0, 1, 1)}, [(0, 0), (50, 0), (50, 20), (0, 20), (0, 0), (50, 0), (0, 0), (0, 0)])],
        "C": [TupleVariation({"wdth": (0, 1, 1)}, [(30, 0), (5, 5), (0, 0), (60, 0), (0, 0), (0, 0)])],
    }
    fb.setupGvar(var)
    b = io.BytesIO(); fb.save(b); return b.getvalue()

def cff_flex_font():
    from fontTools.fontBuilder import FontBuilder
    from fontTools.misc.psCharStrings import T2CharString
    fb = FontBuilder(1000, isTTF=False)
    order = [".notdef", "A", "B", "C", "D", "E", "F", "G", "H", "I", "J"]
    fb.setupGlyphOrder(order); fb.setupCharacterMap({65 + i: n_ for i, n_ in enumerate(order[1:])})
    cs = lambda *p: T2CharString(program=list(p))
    chars = {".notdef": cs(500, 0, "hmoveto", "endchar"),
             "A": cs(10, 20, "rmoveto", 10, 10, 20, 20, 10, 10, 10, -10, 20, 20, 30, "flex1", "endchar"),          # |dx| == |dy| tie
             "B": cs(0, 0, "rmoveto", 50, 5, 10, 5, 40, -10, 30, 0, 20, -5, 7, "flex1", 0, -100, "rlineto", "endchar"),
             "C": cs(5, 5, "rmoveto", 0, 0, 0, 0, 0, 0, 0, 0, 0, 0, 40, "flex1", 50, 50, "rlineto", "endchar"),     # zero sum
             "D": cs(620, 100, 0, "rmoveto", 10, 20, 30, 40, 50, 60, 7, "hflex", 10, 1, 20, 2, 30, 40, 50, 3, 60, "hflex1", -100, "vlineto", "endchar"),
             # every multi-curve form of the curve operators, with the optional leading / trailing argument
             "E": cs(100, 50, "rmoveto", 10, 30, 20, 15, 35, 25, 10, -8, 40, 22, 16, 5, 33, "hhcurveto", "endchar"),        # dy1 + three curves (13 arguments)
             "F": cs(100, 50, "rmoveto", 12, 30, 20, 15, 35, 25, 10, 40, 30, "vvcurveto", "endchar"),                     # dx1 + two curves
             "G": cs(0, 0, "rmoveto", 30, 20, 15, 35, 25, 10, 40, 35, 10, 20, 30, 40, 7, "hvcurveto", "endchar"),              # three curves + trailing
             "H": cs(0, 0, "rmoveto", 30, 20, 15, 35, 25, 10, 40, 35, 9, "vhcurveto", "endchar"),                              # two curves + trailing
             "I": cs(10, 10, "rmoveto", 10, 20, 30, 40, 50, 60, 5, 15, 25, 35, 45, 55, -30, -40, "rcurveline", "endchar"),
             "J": cs(10, 10, "rmoveto", 10, 20, -5, 30, 40, 10, 10, 20, 30, 40, 50, 60, "rlinecurve", "endchar")}
    fb.setupCFF("GenFlex", {"FullName": "Gen Flex"}, chars, {"defaultWidthX": 500, "nominalWidthX": 0})
    fb.setupHorizontalMetrics({n_: (500, 0) for n_ in order}); fb.setupHorizontalHeader(ascent=800, descent=-200)
    fb.setupNameTable({"familyName": "GF", "styleName": "R"}); fb.setupOS2(); fb.setupPost()
    b = io.BytesIO(); fb.save(b); return b.getvalue()

def cff_subr_font(rng):
    """a CFF font whose global and local subroutine INDEXes fall in DIFFERENT bias bands (107 / 1131 / 32768 by count < 1240,
    < 33900, more), with glyphs that call global subroutines, local ones, and global ones that call local ones"""
    from fontTools.fontBuilder import FontBuilder
    from fontTools.misc.psCharStrings import T2CharString
    from fontTools.cffLib import SubrsIndex
    ng, nl = rng.choice([(1300, 3), (5, 1300), (1239, 1240), (1240, 1239), (40, 7)])
    bias = lambda n_: 107 if n_ < 1240 else 1131 if n_ < 33900 else 32768
    fb = FontBuilder(1000, isTTF=False)
    order = [".notdef"] + ["g%d" % i for i in range(8)]
    fb.setupGlyphOrder(order); fb.setupCharacterMap({65 + i: n_ for i, n_ in enumerate(order[1:])})
    chars = {".notdef": T2CharString(program=[500, 0, "hmoveto", "endchar"])}
    picks_g = [0, 1, ng - 1, ng // 2] + [rng.below(ng) for _ in range(4)]
    picks_l = [0, nl - 1, nl // 2] + [rng.below(nl) for _ in range(5)]
    for i, n_ in enumerate(order[1:]):
        prog = [10 + i, 20, "rmoveto", picks_g[i] - bias(ng), "callgsubr"]
        if i % 2: prog += [picks_l[i] - bias(nl), "callsubr"]
        prog += [-30, "hlineto", "endchar"]
        chars[n_] = T2CharString(program=prog)
    fb.setupCFF("GenSubr", {"FullName": "Gen Subr"}, chars, {"defaultWidthX": 500, "nominalWidthX": 0})
    cff = fb.font["CFF "].cff; top = cff.topDictIndex[0]; private = top.Private
    for gi in range(ng):
        body = [gi % 97 + 1, (gi * 7) % 89 + 1, "rlineto"]
        if gi % 5 == 0: body += [(gi % nl) - bias(nl), "callsubr"]              # a global subroutine calling a local one
        cff.GlobalSubrs.append(T2CharString(program=body + ["return"], private=private, globalSubrs=cff.GlobalSubrs))
    private.Subrs = SubrsIndex()
    for li in range(nl):
        private.Subrs.append(T2CharString(program=[-(li % 53) - 1, (li * 3) % 71 + 1, "rlineto", "return"], private=private, globalSubrs=cff.GlobalSubrs))
    for cs_ in top.CharStrings.values(): cs_.private = private; cs_.globalSubrs = cff.GlobalSubrs
    fb.setupHorizontalMetrics({n_: (500, 0) for n_ in order}); fb.setupHorizontalHeader(ascent=800, descent=-200)
    fb.setupNameTable({"familyName": "GS", "styleName": "R"}); fb.setupOS2(); fb.setupPost()
    b = io.BytesIO(); fb.save(b); return "generated-cff-subrs(%d global, %d local)" % (ng, nl), b.getvalue()

def _flat(calls):
    """canonical geometry with float points; closed contours rotated; tolerant comparison is done by the caller"""
    # coordinates on a 1/1024 grid so that float noise cannot create spurious closing lines
    r = lambda v: round(float(v) * 1024) / 1024
    conts = G.rotate_canonical(G.drop_degenerate(G.contours([(op, tuple((r(p[0]), r(p[1])) if p is not None else None for p in a)) for op, a in calls])))
    return conts

def _close(a, b, tol):
    if len(a) != len(b): return False
    for (ca, sa), (cb, sb) in zip(a, b):
        if ca != cb or len(sa) != len(sb): return False
        for x, y in zip(sa, sb):
            if x[0] != y[0] or len(x) != len(y): return False
            for p, q in zip(x[1:], y[1:]):
                if abs(p[0] - q[0]) > tol or abs(p[1] - q[1]) > tol: return False
    return True

def sweeps(tier, rng):
    from fontTools.ttLib import TTFont
    from fontTools.pens.recordingPen import RecordingPen, DecomposingRecordingPen
    from lib.hb import HBFont
    def inputs():
        k = 6 if tier == "quick" else 25 if tier == "search" else 400
        cands = [p for p in corpus.binaries((".ttf", ".otf")) if os.path.getsize(p) < 300000]
        var = [p for p in cands if "fvar" in TTFont(p, lazy=True).reader.keys()]
        for p in corpus.pick(rng, var, k // 2) + corpus.pick(rng, [q for q in cands if q not in var], k // 2):
            yield corpus.rel(p), open(p, "rb").read()
        # CFF2 fonts edited so that the PRIVATE dictionary selects the variation data (vsindex 1) and no charstring says so: a new
        # VarData with the regions in another order is put in front, the original becomes VarData[1]
        import copy
        for p in [q for q in cands if "CFF2" in TTFont(q, lazy=True).reader.keys()][:2 if tier == "quick" else 20]:
            try:
                f = TTFont(p); top = f["CFF2"].cff.topDictIndex[0]; vs = top.VarStore.otVarStore
                if len(vs.VarData) != 1 or len(vs.VarData[0].VarRegionIndex) < 2: continue
                vd0 = copy.deepcopy(vs.VarData[0]); vd0.VarRegionIndex = list(reversed(vd0.VarRegionIndex))
                vs.VarData.insert(0, vd0); vs.VarDataCount = len(vs.VarData)
                for fd in top.FDArray: fd.Private.vsindex = 1
                b = io.BytesIO(); f.save(b); yield "edited-private-vsindex:" + corpus.rel(p), b.getvalue()
            except Exception:
                continue
        for _k in range(2 if tier == "quick" else 12):
            try: yield cff_subr_font(rng)
            except Exception as e: yield "generated-cff-subrs(build failed %r)" % (e,), None
        for name, fn in (("generated-2axis-gvar", two_axis_font), ("generated-cff-flex", cff_flex_font)):
            try: yield name, fn()
            except Exception as e: yield name + "(build failed %r)" % (e,), None
    def run_glyphs():
        for label, data in inputs():
            if data is None: yield ((label, "build"), "could not build the generated font"); continue
            try:
                f = TTFont(io.BytesIO(data)); order = f.getGlyphOrder()
                if "glyf" not in f and "CFF " not in f and "CFF2" not in f: continue
                if "VARC" in f: continue
            except Exception:
                continue
            locs = [None]
            if "fvar" in f:
                ax = f["fvar"].axes
                locs += [{a.axisTag: a.maxValue for a in ax}, {a.axisTag: a.minValue for a in ax},
                         {a.axisTag: a.minValue + (a.maxValue - a.minValue) * rng.randint(0, 16) / 16 for a in ax},
                         {a.axisTag: a.maxValue + 100 for a in ax}]                                # out of range: clamped
                if len(ax) > 1:
                    locs.append({a.axisTag: (a.maxValue if i % 2 else a.defaultValue + (a.maxValue - a.defaultValue) / 2) for i, a in enumerate(ax)})
            for loc in locs:
                bad = None
                try:
                    gs = f.getGlyphSet(location=loc) if loc else f.getGlyphSet()
                    h = HBFont(data, order, variations=loc)
                    step = max(1, len(order) // (60 if tier == "quick" else 400))
                    for gid in range(0, len(order), step):
                        nme = order[gid]
                        if "glyf" in f:
                            g0 = f["glyf"][nme]
                            if getattr(g0, "flags", None) is not None and g0.numberOfContours > 0 and any(fl & 0x80 for fl in g0.flags):
                                continue      # cubic-in-glyf is an experimental format this HarfBuzz build reads differently: no independent oracle
                        gobj = gs[nme]
                        pen = DecomposingRecordingPen(gs); gobj.draw(pen)
                        a = _flat(pen.value); b = _flat(h.outline(gid))
                        tol = 0.51 if loc else 0.01
                        if not _close(a, b, tol):
                            bad = "glyph %r at %r: glyphSet draws %r, HarfBuzz %r" % (nme, loc, pen.value[:5], h.outline(gid)[:5]); break
                        wa = gobj.width; wb = h.advance(gid)        # without HVAR the advance comes from the phantom points, set by draw()
                        # away from the default location an advance without HVAR is the ROUNDED difference of two interpolated phantom points:
                        # an exact .5 (generated deltas are multiples of 1/4 at these locations) is decided by float32 noise in one engine
                        # and by exact halves in the other, so the two may legitimately sit one unit apart
                        wtol = 0.01 if not loc else (0.51 if "HVAR" in f else 1.01)
                        if abs(wa - wb) > wtol: bad = "advance of %r at %r: glyphSet %r, HarfBuzz %r" % (nme, loc, wa, wb); break
                except NotImplementedError:
                    bad = None
                except Exception as e:
                    bad = "drawing raised %r" % (e,)
                yield ((label, str(loc)), bad)
    return [Sweep("glyphs-vs-harfbuzz", run_glyphs)]

def witness(fid): return None
