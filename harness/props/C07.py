"""C07 — subsetting preserves the behaviour of what it keeps."""
import io, os, types, unicodedata
from lib.ser import Ok, Err, res, Raw, Opt
from lib import corpus
from vcheck import Corr, Sweep

RULE = ("subset_subst / closure / classdef_subset / varstore_subset: random rule tables over 10 glyphs with chains of substitutions, "
        "requests touching none/some/all VarData; sweeps: corpus fonts and generated feature programs (random lookup graphs with "
        "contextual->ligature calls, early-stage features declared late, class-based contexts, variable kerning, multi-VarData HVAR) "
        "subset to random requests under random options; every text over the requested characters, every retained glyph's outline "
        "and advance at several variation locations compared through HarfBuzz by glyph NAME.")
TRUSTED = ["uharfbuzz 0.52 as the independent shaper / outline reader"]
ASSUMPTIONS = ["the Coq model covers single/multiple substitution subsetting, the whole GSUB closure (single, multiple, alternate, ligature, "
               "contextual and chaining lookups with nested calls; reverse chaining excluded), class remapping and VarStore index remapping; "
               "every other table's subsetting is checked only by the HarfBuzz sweeps",
               "texts are restricted to NFC/NFD-stable strings without default-ignorable characters (shaper-side normalisation and "
               "hiding depend on which OTHER glyphs exist and are outside the property)"]

def N(tier, q, t): return q if tier == "quick" else t

# ------------------------------------------------------------------ correspondences
def _mk_gsub(lookups):
    """GSUB table object with single/multiple substitution lookups, all under one feature"""
    from fontTools.ttLib import newTable
    from fontTools.ttLib.tables import otTables as ot
    from fontTools.otlLib import builder as B
    t = ot.GSUB(); t.Version = 0x00010000
    lks = []
    for m in lookups:
        if all(len(v) == 1 for v in m.values()) and m:
            st = B.buildSingleSubstSubtable({k: v[0] for k, v in m.items()})
        else:
            st = B.buildMultipleSubstSubtable({k: list(v) for k, v in m.items()})
        lks.append(B.buildLookup([st]))
    t.LookupList = ot.LookupList(); t.LookupList.Lookup = lks; t.LookupList.LookupCount = len(lks)
    fr = ot.FeatureRecord(); fr.FeatureTag = "test"; fr.Feature = ot.Feature(); fr.Feature.FeatureParams = None
    fr.Feature.LookupListIndex = list(range(len(lks))); fr.Feature.LookupCount = len(lks)
    t.FeatureList = ot.FeatureList(); t.FeatureList.FeatureRecord = [fr]; t.FeatureList.FeatureCount = 1
    sr = ot.ScriptRecord(); sr.ScriptTag = "DFLT"; sr.Script = ot.Script(); sr.Script.LangSysRecord = []; sr.Script.LangSysCount = 0
    ls = ot.DefaultLangSys(); ls.ReqFeatureIndex = 0xFFFF; ls.FeatureIndex = [0]; ls.FeatureCount = 1; ls.LookupOrder = None
    sr.Script.DefaultLangSys = ls
    t.ScriptList = ot.ScriptList(); t.ScriptList.ScriptRecord = [sr]; t.ScriptList.ScriptCount = 1
    g = newTable("GSUB"); g.table = t
    return g


def model_of_gsub(table, gid):
    """the GSUB table as the model's data: [lookup = [subtable]], subtable = Raw(tagged ints). gid: glyph name -> int"""
    from lib import ser as S
    allg = sorted(gid, key=gid.get)
    G = lambda names: [gid[n] for n in names]
    def members(cd, k):
        d = cd.classDefs if cd is not None else {}
        return [gid[n] for n in allg if d.get(n, 0) == k]
    lks = []
    for lk in table.LookupList.Lookup:
        subs = []
        for st in lk.SubTable:
            if type(st).__name__.startswith("Extension"): st = st.ExtSubTable
            T = type(st).__name__
            if T == "SingleSubst": subs.append(Raw([0, 0] + S.ser([(gid[a], [gid[b]]) for a, b in st.mapping.items()])))
            elif T == "AlternateSubst": subs.append(Raw([0, 0] + S.ser([(gid[a], G(b)) for a, b in st.alternates.items()])))
            elif T == "MultipleSubst": subs.append(Raw([0, 1] + S.ser([(gid[a], G(b)) for a, b in st.mapping.items()])))
            elif T == "LigatureSubst":
                subs.append(Raw([1] + S.ser([(gid[a], (G(l.Component), gid[l.LigGlyph])) for a, ligs in st.ligatures.items() for l in ligs])))
            elif T in ("ContextSubst", "ChainContextSubst"):
                chain = T.startswith("Chain"); pre = "Chain" if chain else ""
                rules = []
                recs_of = lambda r: [(x.SequenceIndex, x.LookupListIndex) for x in r.SubstLookupRecord]
                if st.Format == 1:
                    for i, g in enumerate(st.Coverage.glyphs):
                        rs = getattr(st, pre + "SubRuleSet")[i]
                        if not rs: continue
                        for r in getattr(rs, pre + "SubRule"):
                            back = list(r.Backtrack) if chain else []; ahead = list(r.LookAhead) if chain else []
                            rules.append((([gid[g]], [[gid[x]] for x in back + list(r.Input) + ahead]), ([[gid[x]] for x in r.Input], recs_of(r))))
                elif st.Format == 2:
                    icd = st.InputClassDef if chain else st.ClassDef
                    bcd = st.BacktrackClassDef if chain else None; lcd = st.LookAheadClassDef if chain else None
                    sets = getattr(st, pre + "SubClassSet")
                    for i, rs in enumerate(sets):
                        if not rs: continue
                        first = [gid[n] for n in st.Coverage.glyphs if icd.classDefs.get(n, 0) == i]
                        for r in getattr(rs, pre + "SubClassRule"):
                            inp = list(r.Input if chain else r.Class)
                            need = ([members(bcd, k) for k in r.Backtrack] if chain else []) + [members(icd, k) for k in inp] + ([members(lcd, k) for k in r.LookAhead] if chain else [])
                            rules.append(((first, need), ([members(icd, k) for k in inp], recs_of(r))))
                elif st.Format == 3:
                    inp = st.InputCoverage if chain else st.Coverage
                    others = (list(st.BacktrackCoverage) if chain else []) + list(inp[1:]) + (list(st.LookAheadCoverage) if chain else [])
                    rules.append(((G(inp[0].glyphs), [G(c.glyphs) for c in others]), ([G(c.glyphs) for c in inp[1:]], recs_of(st))))
                subs.append(Raw([2] + S.ser(rules)))
            else:
                raise NotImplementedError(T)
        lks.append(subs)
    return lks

def gsub_lookup_order(table):
    idx = set()
    for fr in table.FeatureList.FeatureRecord: idx.update(fr.Feature.LookupListIndex)
    return sorted(idx)

def correspondences(tier, rng):
    import fontTools.subset  # noqa: installs the methods
    from fontTools.ttLib.tables import otTables as ot
    from fontTools.otlLib import builder as B
    from fontTools.varLib import builder as VB
    n = N(tier, 600, 8000)
    G = lambda i: "g%d" % i
    def rules():
        m = {}
        for _ in range(rng.randint(0, 6)):
            k = rng.randint(0, 9)
            m[k] = [rng.randint(0, 11) for _ in range(1 if rng.chance(60) else rng.randint(0, 3))]
        return m
    # --- subset_subst
    c1 = []
    for _ in range(n):
        c1.append((rules(), sorted(set(rng.randint(0, 11) for _ in range(rng.randint(0, 8))))))
    def impl_subset(x):
        m, keep = x
        s = types.SimpleNamespace(glyphs={G(i) for i in keep})
        if m and all(len(v) == 1 for v in m.values()):
            st = B.buildSingleSubstSubtable({G(k): G(v[0]) for k, v in m.items()}); st.subset_glyphs(s)
            return sorted((int(k[1:]), [int(v[1:])]) for k, v in st.mapping.items())
        st = ot.MultipleSubst(); st.mapping = {G(k): [G(o) for o in v] for k, v in m.items()}; st.subset_glyphs(s)
        return sorted((int(k[1:]), [int(o[1:]) for o in v]) for k, v in st.mapping.items())
    enc_subset = lambda x: (sorted(x[0].items()), x[1])
    # the model keeps rule order; cases are generated with sorted keys so the orders coincide
    # --- closure
    c2 = []
    for _ in range(n):
        c2.append(([r_ for r_ in (rules() for _ in range(rng.randint(1, 4))) if r_] or [{1: [2]}], sorted(set(rng.randint(0, 9) for _ in range(rng.randint(1, 4))))))      # an empty request never reaches the closure with .notdef retained
    def impl_closure(x):
        ls, init = x
        g = _mk_gsub([{G(k): [G(o) for o in v] for k, v in m.items()} for m in ls])
        s = types.SimpleNamespace(glyphs={G(i) for i in init})
        g.closure_glyphs(s)
        return sorted(int(k[1:]) for k in s.glyphs)
    def cmp_closure(x, impl_ser, model_ser):
        # the closure is a SET: the model's discovery order is immaterial
        if not model_ser or model_ser[0] != 1: return "model ran out of fuel"
        return sorted(model_ser[2:2 + model_ser[1]]) == list(impl_ser[1:])
    # --- classdef_subset
    c3 = []
    for _ in range(n):
        cd = {}
        for _k in range(rng.randint(0, 7)): cd[rng.randint(0, 9)] = rng.randint(0 if rng.chance(15) else 1, 6)
        c3.append((cd, sorted(set(rng.randint(0, 11) for _ in range(rng.randint(0, 7)))), rng.chance(60)))
    def impl_classdef(x):
        cd, glyphs, use0 = x
        c = ot.ClassDef(); c.classDefs = {G(k): v for k, v in cd.items()}
        idx = c.subset({G(i) for i in glyphs}, remap=True, useClass0=use0)
        return (sorted((int(k[1:]), v) for k, v in c.classDefs.items()), list(idx))
    enc_classdef = lambda x: (sorted(x[0].items()), x[1], x[2])
    # --- varstore
    c4 = []
    for _ in range(n):
        store = [[[rng.randint(-9, 9)] for _ in range(rng.randint(1, 5))] for _ in range(rng.randint(1, 4))]
        used = []
        majors = [m for m in range(len(store)) if rng.chance(60)]
        for m in majors:
            for _ in range(rng.randint(1, 4)): used.append((m << 16) + rng.randint(0, len(store[m]) - 1))
        if rng.chance(20): used.append(0xFFFFFFFF)
        rng.shuffle(used)
        adv = sorted(set(u & 0xFFFF for u in used if (u >> 16) == 0 and u != 0xFFFFFFFF and rng.chance(30)))
        c4.append((store, used, rng.chance(25), adv))
    def impl_varstore(x):
        store, used, retain, adv = x
        regs = [VB.buildVarRegion({"wght": (0, 1, 1)}, ["wght"])]
        vs = VB.buildVarStore(VB.buildVarRegionList([{"wght": (0, 1, 1)}], ["wght"]),
                              [VB.buildVarData([0], [list(r) for r in items], optimize=False) for items in store])
        mp = vs.subset_varidxes(set(used), optimize=False, retainFirstMap=retain, advIdxes=set(adv))
        return ([[list(r) for r in vd.Item] for vd in vs.VarData], [(k, v) for k, v in mp.items() if k != 0xFFFFFFFF])
    def oracle_varstore(x):
        """every used index still addresses the same delta row"""
        store, used, retain, adv = x
        new, mp = impl_varstore(x); mp = dict(mp)
        for u in used:
            if u == 0xFFFFFFFF: continue
            v = mp.get(u)
            if v is None: return "used index %#x has no image" % u
            try: row = new[v >> 16][v & 0xFFFF]
            except IndexError: return "image %#x of %#x is out of range" % (v, u)
            if row != store[u >> 16][u & 0xFFFF]: return "row of %#x changed: %r -> %r" % (u, store[u >> 16][u & 0xFFFF], row)
        return None
    # --- the whole closure on compiled feature programs (ligatures, contextual lookups with nested calls)
    from fontTools.ttLib import TTFont
    from fontTools.feaLib.builder import addOpenTypeFeaturesFromString
    from fontTools.feaLib.error import FeatureLibError
    c5 = []; tables = {}
    for k in range(N(tier, 120, 1500)):
        base, extra, fea, tags = gen_feature_program(rng)
        order = [".notdef", "space"] + base + extra
        f = TTFont(); f.setGlyphOrder(order)
        try: addOpenTypeFeaturesFromString(f, fea)
        except FeatureLibError: continue
        if "GSUB" not in f: continue
        t = f["GSUB"]
        gid = {n_: i for i, n_ in enumerate(order)}
        try: lks = model_of_gsub(t.table, gid)
        except NotImplementedError: continue
        tables[k] = (t, order)
        for _ in range(4):
            init = sorted(set([0] + [gid[rng.choice(base)] for _ in range(rng.randint(1, 4))]))
            c5.append((k, len(order) + 2, lks, gsub_lookup_order(t.table), init))
    # directed: class-based (Format 2) contextual subtables built by hand -- classes whose members are only partly in the coverage,
    # lookup records at every sequence position, nested lookups reachable only through the context
    def format2_table(kk):
        from fontTools.ttLib import newTable
        glyphs = ["g%d" % i for i in range(10)]; alts = ["g%d.alt" % i for i in range(10)]
        order = [".notdef"] + glyphs + alts
        gm = {n_: i for i, n_ in enumerate(order)}
        ncls = rng.randint(2, 3)
        cd = {g: rng.randint(1, ncls) for g in glyphs if rng.chance(65)}       # class 0 = not listed (a ClassDef never lists it)
        cov = sorted([g for g in glyphs if rng.chance(45)] or [glyphs[0]], key=gm.get)
        chain = rng.chance(40)
        T_ = ot.ChainContextSubst if chain else ot.ContextSubst
        st = T_(); st.Format = 2; st.Coverage = ot.Coverage(); st.Coverage.glyphs = cov
        mk = lambda d: (lambda c: (setattr(c, "classDefs", dict(d)), c)[1])(ot.ClassDef())
        if chain:
            st.InputClassDef = mk(cd); st.BacktrackClassDef = mk({g: 1 for g in glyphs if rng.chance(50)}); st.LookAheadClassDef = mk({g: 1 for g in glyphs if rng.chance(50)})
        else: st.ClassDef = mk(cd)
        nsub = rng.randint(1, 3)                      # nested single-substitution lookups 1..nsub (lookup 0 is the context)
        sets = []
        for k_ in range(ncls + 1):
            if not rng.chance(70): sets.append(None); continue
            rules = []
            for _r in range(rng.randint(1, 2)):
                inp = [rng.randint(0, ncls) for _ in range(rng.randint(1, 3))]
                recs = []
                for _q in range(rng.randint(1, 2)):
                    rec = ot.SubstLookupRecord(); rec.SequenceIndex = rng.randint(0, len(inp)); rec.LookupListIndex = rng.randint(1, nsub); recs.append(rec)
                if chain:
                    r = ot.ChainSubClassRule(); r.Backtrack = [1] * rng.randint(0, 1); r.Input = inp; r.LookAhead = [1] * rng.randint(0, 1)
                    r.BacktrackGlyphCount = len(r.Backtrack); r.InputGlyphCount = len(inp) + 1; r.LookAheadGlyphCount = len(r.LookAhead)
                else:
                    r = ot.SubClassRule(); r.Class = inp; r.GlyphCount = len(inp) + 1
                r.SubstLookupRecord = recs; r.SubstCount = len(recs); rules.append(r)
            rs = (ot.ChainSubClassSet if chain else ot.SubClassSet)()
            setattr(rs, "ChainSubClassRule" if chain else "SubClassRule", rules); setattr(rs, "ChainSubClassRuleCount" if chain else "SubClassRuleCount", len(rules))
            sets.append(rs)
        setattr(st, "ChainSubClassSet" if chain else "SubClassSet", sets); setattr(st, "ChainSubClassSetCount" if chain else "SubClassSetCount", len(sets))
        lks = [B.buildLookup([st])]
        for j in range(nsub):
            lks.append(B.buildLookup([B.buildSingleSubstSubtable({g: g + ".alt" for g in glyphs if rng.chance(60)} or {glyphs[j]: glyphs[j] + ".alt"})]))
        t = ot.GSUB(); t.Version = 0x00010000
        t.LookupList = ot.LookupList(); t.LookupList.Lookup = lks; t.LookupList.LookupCount = len(lks)
        fr = ot.FeatureRecord(); fr.FeatureTag = "test"; fr.Feature = ot.Feature(); fr.Feature.FeatureParams = None
        fr.Feature.LookupListIndex = [0]; fr.Feature.LookupCount = 1
        t.FeatureList = ot.FeatureList(); t.FeatureList.FeatureRecord = [fr]; t.FeatureList.FeatureCount = 1
        sr = ot.ScriptRecord(); sr.ScriptTag = "DFLT"; sr.Script = ot.Script(); sr.Script.LangSysRecord = []; sr.Script.LangSysCount = 0
        ls = ot.DefaultLangSys(); ls.ReqFeatureIndex = 0xFFFF; ls.FeatureIndex = [0]; ls.FeatureCount = 1; ls.LookupOrder = None
        sr.Script.DefaultLangSys = ls
        t.ScriptList = ot.ScriptList(); t.ScriptList.ScriptRecord = [sr]; t.ScriptList.ScriptCount = 1
        g = newTable("GSUB"); g.table = t
        return g, order, gm, glyphs
    for k in range(N(tier, 60, 800)):
        try:
            t, order, gm, glyphs = format2_table(k)
            lks = model_of_gsub(t.table, gm)
        except Exception:
            continue
        key = ("f2", k); tables[key] = (t, order)
        for _ in range(4):
            init = sorted(set([0] + [gm[rng.choice(glyphs)] for _ in range(rng.randint(1, 5))]))
            c5.append((key, len(order) + 2, lks, gsub_lookup_order(t.table), init))
    def impl_gsub(x):
        t, order = tables[x[0]]
        s = types.SimpleNamespace(glyphs={order[i] for i in x[4]})
        t.closure_glyphs(s)
        return sorted(order.index(g) for g in s.glyphs)
    _f2fonts = {}
    def oracle_gsub(x):
        """the PROPERTY on the implementation, for the hand-built tables: whatever HarfBuzz turns a text over the requested glyphs into
        stays inside the closure the subsetter computes (so nothing the text needs is subset away)"""
        key = x[0]
        if not (isinstance(key, tuple) and key[0] == "f2"): return None
        from lib.hb import HBFont
        from fontTools.fontBuilder import FontBuilder
        from fontTools.pens.ttGlyphPen import TTGlyphPen
        t, order = tables[key]
        if key not in _f2fonts:
            fb = FontBuilder(1000, isTTF=True); fb.setupGlyphOrder(order)
            fb.setupCharacterMap({0x61 + i: g for i, g in enumerate(order[1:11])})
            fb.setupGlyf({g: TTGlyphPen(None).glyph() for g in order}); fb.setupHorizontalMetrics({g: (500, 0) for g in order})
            fb.setupHorizontalHeader(ascent=800, descent=-200); fb.setupNameTable({"familyName": "F2", "styleName": "R"}); fb.setupOS2(); fb.setupPost()
            fb.font["GSUB"] = t
            b = io.BytesIO(); fb.save(b); _f2fonts[key] = HBFont(b.getvalue(), order)
        hbf = _f2fonts[key]
        s_ = types.SimpleNamespace(glyphs={order[i] for i in x[4]}); t.closure_glyphs(s_)
        req = [order[i] for i in x[4] if 1 <= i <= 10]
        if not req: return None
        r_ = random_for(x)
        for _ in range(40):
            text = [r_.choice(req) for _ in range(r_.randint(1, 6))]
            out = hbf.shape("".join(chr(0x61 + order.index(g) - 1) for g in text), features={"test": True}, script="DFLT")
            miss = [o[0] for o in out if o[0] not in s_.glyphs]
            if miss: return "text %r over the request shapes to %r, but %r is not in the closure %r" % (text, [o[0] for o in out], miss[0], sorted(s_.glyphs))
        return None
    def random_for(x):
        import random
        return random.Random(hash((x[0], tuple(x[4]))) & 0xFFFFFFFF)
    # --- ligature subtables: subset_glyphs on the real class; the model's reading of a subtable against HarfBuzz
    def gen_lig():
        firsts = rng.sample(range(0, 10), rng.randint(1, 4))
        l = []
        for f in firsts:                                         # grouped by first glyph, as the `ligatures` dict is
            for _ in range(rng.randint(1, 4)):
                comps = [rng.randint(0, 9) for _ in range(rng.choice([1, 1, 2, 2, 3, 0]))]
                if rng.chance(40) and l and l[-1][0] == f: comps = list(l[-1][1][0][:rng.randint(0, len(l[-1][1][0]))]) + ([rng.randint(0, 9)] if rng.chance(50) else [])
                l.append((f, (comps, rng.randint(0, 11))))
        return l
    def mk_ligsub(l):
        st = ot.LigatureSubst(); st.ligatures = {}
        for f, (comps, lg) in l:
            L = ot.Ligature(); L.Component = [G(c) for c in comps]; L.CompCount = len(comps) + 1; L.LigGlyph = G(lg)
            st.ligatures.setdefault(G(f), []).append(L)
        return st
    c6 = [(gen_lig(), sorted(set(rng.randint(0, 11) for _ in range(rng.randint(0, 10))))) for _ in range(n)]
    def impl_subset_lig(x):
        l, keep = x
        st = mk_ligsub(l); st.subset_glyphs(types.SimpleNamespace(glyphs={G(i) for i in keep}))
        return [(int(f[1:]), ([int(c[1:]) for c in L.Component], int(L.LigGlyph[1:]))) for f, ligs in st.ligatures.items() for L in ligs]
    def lig_font(l):
        from fontTools.fontBuilder import FontBuilder
        from fontTools.pens.ttGlyphPen import TTGlyphPen
        order = [".notdef"] + [G(i) for i in range(12)]
        fb = FontBuilder(1000, isTTF=True); fb.setupGlyphOrder(order); fb.setupCharacterMap({0x61 + i: G(i) for i in range(12)})
        fb.setupGlyf({g: TTGlyphPen(None).glyph() for g in order}); fb.setupHorizontalMetrics({g: (500, 0) for g in order})
        fb.setupHorizontalHeader(ascent=800, descent=-200); fb.setupNameTable({"familyName": "L", "styleName": "R"}); fb.setupOS2(); fb.setupPost()
        t = ot.GSUB(); t.Version = 0x00010000
        lk = B.buildLookup([mk_ligsub(l)])
        t.LookupList = ot.LookupList(); t.LookupList.Lookup = [lk]; t.LookupList.LookupCount = 1
        fr = ot.FeatureRecord(); fr.FeatureTag = "liga"; fr.Feature = ot.Feature(); fr.Feature.FeatureParams = None
        fr.Feature.LookupListIndex = [0]; fr.Feature.LookupCount = 1
        t.FeatureList = ot.FeatureList(); t.FeatureList.FeatureRecord = [fr]; t.FeatureList.FeatureCount = 1
        sr = ot.ScriptRecord(); sr.ScriptTag = "DFLT"; sr.Script = ot.Script(); sr.Script.LangSysRecord = []; sr.Script.LangSysCount = 0
        ls = ot.DefaultLangSys(); ls.ReqFeatureIndex = 0xFFFF; ls.FeatureIndex = [0]; ls.FeatureCount = 1; ls.LookupOrder = None
        sr.Script.DefaultLangSys = ls
        t.ScriptList = ot.ScriptList(); t.ScriptList.ScriptRecord = [sr]; t.ScriptList.ScriptCount = 1
        from fontTools.ttLib import newTable
        g = newTable("GSUB"); g.table = t; fb.font["GSUB"] = g
        b = io.BytesIO(); fb.save(b); return b.getvalue(), order
    c7 = []
    for _ in range(max(60, n // 8)):
        l = [e for e in gen_lig() if e[1][0]]                     # a ligature of one glyph alone is a single substitution: not built here
        if not l: continue
        try: data, order = lig_font(l)
        except Exception: continue
        for _t in range(4):
            text = [rng.choice([e[0] for e in l] + list(range(10))) for _ in range(rng.randint(1, 8))]
            if rng.chance(60):
                f, (comps, lg) = rng.choice(l); pos = rng.randint(0, len(text)); text[pos:pos] = [f] + comps
            c7.append((l, text[:12], data, order))
    def impl_shape_lig(x):
        from lib.hb import HBFont
        l, text, data, order = x
        out = HBFont(data, order).shape("".join(chr(0x61 + g) for g in text), features={"liga": True}, script="DFLT")
        return [int(o[0][1:]) for o in out]
    return [Corr("subset_lig", c6, impl_subset_lig), Corr("shape_lig", c7, impl_shape_lig, enc=lambda x: (x[0], x[1])),
            Corr("closure_gsub", c5, impl_gsub, enc=lambda x: x[1:], compare=cmp_closure, oracle=oracle_gsub),
            Corr("subset_subst", c1, impl_subset, enc=enc_subset),
            Corr("closure", c2, impl_closure, enc=lambda x: ([sorted(m.items()) for m in x[0]], x[1]), compare=cmp_closure),
            Corr("classdef_subset", c3, impl_classdef, enc=enc_classdef),
            Corr("varstore_subset", c4, impl_varstore, enc=lambda x: x, oracle=oracle_varstore)]

# ------------------------------------------------------------------ generated fonts
LETTERS = "abcdefghij"

def _box(w, h=400):
    from fontTools.pens.ttGlyphPen import TTGlyphPen
    pen = TTGlyphPen(None); pen.moveTo((20, 0)); pen.lineTo((20, h)); pen.lineTo((w - 20, h)); pen.lineTo((w - 20, 0)); pen.closePath()
    return pen.glyph()

def gen_feature_program(rng):
    """random GSUB/GPOS program: returns (glyph list, fea text). Lookups are declared in random order, so that a lookup used by an
    early shaping stage (rvrn) may have a higher index than the lookups consuming its output."""
    base = list(LETTERS[:rng.randint(4, 8)])
    glyphs = list(base); extra = []
    def new(name):
        if name not in glyphs and name not in extra: extra.append(name)
        return name
    pool = lambda: base + extra
    lookups = []          # (name, body, kind)
    nsub = rng.randint(2, 6)
    for i in range(nsub):
        kind = rng.choice(["single", "single", "multiple", "ligature", "ligature", "alternate"])
        name = "L%d" % i; lines = []
        if kind == "single":
            suf = rng.choice([".alt", ".sc"]); seen = set()
            for _ in range(rng.randint(1, 3)):
                g = rng.choice(pool())
                if g in seen or g.endswith(suf): continue
                seen.add(g); lines.append("sub %s by %s;" % (g, new(g + suf)))
        elif kind == "multiple":
            seen = set()
            for _ in range(rng.randint(1, 2)):
                g = rng.choice(pool())
                if g in seen: continue
                seen.add(g); lines.append("sub %s by %s %s;" % (g, rng.choice(pool()), new(g + ".part")))
        elif kind == "ligature":
            seen = set()
            fam = lambda g: [x for x in pool() if x == g or x.startswith(g + ".")]
            for _ in range(rng.randint(1, 2)):
                first = rng.choice(pool()); second = rng.choice(base)
                # a family of ligatures: the same first component with each form of the second letter (fi, fi.alt, ...)
                for sec in (fam(second) if rng.chance(60) else [rng.choice(pool())]):
                    comps = [first, sec] + ([rng.choice(pool())] if rng.chance(20) else [])
                    if tuple(comps) in seen: continue
                    seen.add(tuple(comps)); lines.append("sub %s by %s;" % (" ".join(comps), new("_".join(c.replace(".", "") for c in comps) + ".lig")))
        else:
            g = rng.choice(base); lines.append("sub %s from [%s %s];" % (g, new(g + ".a1"), new(g + ".a2")))
        if lines: lookups.append((name, lines, kind))
    motif_ctx = []
    if rng.chance(35):
        # motif: a ligature family reached ONLY through a contextual lookup, one of whose components is produced by a single
        # substitution living in another feature (possibly an earlier shaping stage) and declared anywhere in the file
        x, y = rng.choice(base), rng.choice(base); suf = rng.choice([".alt", ".sc"]); ya = new(y + suf)
        ln, an = "L%d" % nsub, "L%d" % (nsub + 1)
        lig = ["sub %s %s by %s;" % (x, y, new("%s_%s.lig" % (x, y))), "sub %s %s by %s;" % (x, ya, new("%s_%s.lig" % (x, ya.replace(".", ""))))]
        lookups.append((ln, lig, "ligature-motif")); lookups.append((an, ["sub %s by %s;" % (y, ya)], "single"))
        if rng.chance(50): motif_ctx.append(("M0", ["sub %s' lookup %s [%s %s]';" % (x, ln, y, ya)], "context"))
        else: motif_ctx.append(("M0", ["sub %s' lookup %s %s';" % (x, ln, y), "sub %s' lookup %s %s';" % (x, ln, ya)], "context"))
    # contextual lookups calling earlier-defined substitution lookups at fixed positions
    ctx = list(motif_ctx)
    subs = [l for l in lookups if l[2] != "ligature-motif"]
    for i in range(rng.randint(0, 3)):
        if not subs: break
        tgt = rng.choice(subs); name = "C%d" % i; lines = []
        for _ in range(rng.randint(1, 3)):
            first = tgt[1][0].split()      # "sub x y by z;" -> derive an input sequence from the target's first rule
            if tgt[2] == "ligature":
                k = rng.choice(tgt[1]).split(); comps = k[1:k.index("by")]
                if rng.chance(40):
                    # class-based input: every second component the target lookup knows after this first glyph
                    seconds = sorted({r.split()[2] for r in tgt[1] if r.split()[1] == comps[0]})
                    lines.append("sub %s' lookup %s [%s]'%s;" % (comps[0], tgt[0], " ".join(seconds), "".join(" %s'" % c for c in comps[2:])))
                else:
                    for r in tgt[1]:
                        rc = r.split(); rc = rc[1:rc.index("by")]
                        if rc[0] == comps[0] and rng.chance(70):
                            lines.append("sub %s' lookup %s %s;" % (rc[0], tgt[0], " ".join(c + "'" for c in rc[1:])))
            else:
                k = rng.choice(tgt[1]).split(); g = k[1]
                style = rng.below(3)
                if style == 0: lines.append("sub %s %s' lookup %s;" % (rng.choice(pool()), g, tgt[0]))
                elif style == 1: lines.append("sub %s' lookup %s %s;" % (g, tgt[0], rng.choice(pool())))
                else: lines.append("sub [%s %s] %s' lookup %s [%s %s];" % (rng.choice(pool()), rng.choice(pool()), g, tgt[0], rng.choice(pool()), rng.choice(pool())))
        ctx.append((name, sorted(set(lines)), "context"))
    decl = lookups + ctx
    # declaration order: contextual lookups must follow what they call; otherwise random
    order = list(range(len(decl))); rng.shuffle(order)
    pos = {decl[i][0]: n_ for n_, i in enumerate(order)}
    seq = sorted(decl, key=lambda l: pos[l[0]])
    placed = []; names = set()
    pending = list(seq)
    while pending:
        for l in list(pending):
            calls = {w for line in l[1] for w in line.replace(";", " ").split() if w.startswith("L") and w[1:].isdigit()}
            if calls <= names:
                placed.append(l); names.add(l[0]); pending.remove(l); break
        else:
            placed += pending; break
    called = {w for l in ctx for line in l[1] for w in line.replace(";", " ").split() if w.startswith("L") and w[1:].isdigit()}
    fea = ["languagesystem DFLT dflt;", "languagesystem latn dflt;"]
    for name, lines, kind in placed:
        fea.append("lookup %s {\n  %s\n} %s;" % (name, "\n  ".join(lines), name))
    tags = ["rvrn", "rvrn", "ccmp", "liga", "calt", "rlig", "locl", "ss01", "salt"]
    used_tags = {}
    for name, lines, kind in placed:
        if kind == "ligature-motif" or (name in called and rng.chance(85)): continue            # reached only through context
        if kind == "alternate": tag = rng.choice(["salt", "ss01"])
        elif kind in ("single", "multiple") and rng.chance(40): tag = "rvrn"        # an earlier shaping stage, whatever the lookup index
        elif kind == "context": tag = rng.choice(["calt", "calt", "ccmp", "rlig", "liga", "ss01"])
        else: tag = rng.choice(tags)
        used_tags.setdefault(tag, []).append(name)
    for tag, ls in used_tags.items():
        fea.append("feature %s {\n  %s\n} %s;" % (tag, "\n  ".join("lookup %s;" % n_ for n_ in ls), tag))
    # GPOS: glyph and class kerning, single adjustments
    allg = base + extra
    kern = []
    seen = set()
    for _ in range(rng.randint(0, 5)):
        a, b = rng.choice(allg), rng.choice(allg)
        if (a, b) in seen: continue
        seen.add((a, b)); kern.append("pos %s %s %d;" % (a, b, rng.randint(-90, 90)))
    if rng.chance(50) and len(allg) >= 4:
        k = rng.randint(1, 3)
        kern.append("pos [%s] [%s] %d;" % (" ".join(allg[:k]), " ".join(allg[-k:]), rng.randint(-60, 60)))
    if kern: fea.append("feature kern {\n  %s\n} kern;" % "\n  ".join(kern))
    return base, extra, "\n".join(fea) + "\n", sorted(used_tags)

def build_feature_font(rng, variable=False):
    from fontTools.fontBuilder import FontBuilder
    from fontTools.feaLib.builder import addOpenTypeFeaturesFromString
    from fontTools.ttLib.tables.TupleVariation import TupleVariation
    base, extra, fea, tags = gen_feature_program(rng)
    order = [".notdef", "space"] + base + extra
    adv = {g: 300 + 10 * i + 7 * (i % 3) for i, g in enumerate(order)}
    fb = FontBuilder(1000, isTTF=True); fb.setupGlyphOrder(order)
    cm = {ord(c): c for c in base}; cm[32] = "space"; fb.setupCharacterMap(cm)
    fb.setupGlyf({g: _box(adv[g], 300 + 13 * i) for i, g in enumerate(order)})
    fb.setupHorizontalMetrics({g: (adv[g], 20) for g in order}); fb.setupHorizontalHeader(ascent=800, descent=-200)
    fb.setupNameTable({"familyName": "Gen07", "styleName": "Regular"}); fb.setupOS2(); fb.setupPost()
    if variable:
        fb.setupFvar([("wght", 100, 400, 900, "Weight"), ("wdth", 50, 100, 200, "Width")], [])
        var = {}
        for i, g in enumerate(order):
            d = 10 + 5 * (i % 7)
            var[g] = [TupleVariation({"wght": (0, 1, 1)}, [(0, 0), (0, 10), (d, 10), (d, 0), (0, 0), (d, 0), (0, 0), (0, 0)])]
            if i % 2: var[g].append(TupleVariation({"wdth": (0, 1, 1)}, [(0, 0), (0, 0), (2 * d, 0), (2 * d, 0), (0, 0), (2 * d, 0), (0, 0), (0, 0)]))
        fb.setupGvar(var)
        # variable kerning with different master sets -> several VarData in the GDEF store
        allg = base + extra
        vk = []
        for j in range(rng.randint(1, 4)):
            a, b = rng.choice(allg), rng.choice(allg)
            if j % 2: vk.append("pos %s %s (wght=100:%d wght=400:%d wght=900:%d);" % (a, b, rng.randint(-50, 50), rng.randint(-50, 50), rng.randint(-50, 50)))
            else: vk.append("pos %s %s (wght=400,wdth=100:%d wght=400,wdth=200:%d wght=900,wdth=100:%d);" % (a, b, rng.randint(-50, 50), rng.randint(-50, 50), rng.randint(-50, 50)))
        fea = fea + "feature dist {\n  %s\n} dist;\n" % "\n  ".join(sorted(set(vk), key=lambda l: l.split()[1:3]))
        # variable cursive anchors: entry varying in x only, exit in y only, and one glyph with both varying -- an anchor that
        # varies on one axis carries a single device table
        cg = rng.sample(base, min(3, len(base)))
        ca = []
        for j, g in enumerate(cg):
            if j == 0: ca.append("pos cursive %s <anchor (wght=400:%d wght=900:%d) 0> <anchor 250 (wght=400:%d wght=900:%d)>;" % (g, 10, 10 + rng.randint(20, 60), 5, 5 + rng.randint(20, 60)))
            elif j == 1: ca.append("pos cursive %s <anchor 0 (wght=400:%d wght=900:%d)> <anchor (wght=400:%d wght=900:%d) 30>;" % (g, 0, rng.randint(20, 60), 260, 260 + rng.randint(20, 60)))
            else: ca.append("pos cursive %s <anchor (wght=400:5 wght=900:%d) (wght=400:5 wght=900:%d)> <anchor 240 0>;" % (g, rng.randint(20, 50), rng.randint(20, 50)))
        fea = fea + "feature curs {\n  %s\n} curs;\n" % "\n  ".join(ca)
    addOpenTypeFeaturesFromString(fb.font, fea)
    if variable:
        if rng.chance(50): _add_hvar(fb.font, rng)
        else: _add_implicit_var(fb.font, rng, "HVAR")
        if rng.chance(60):
            fb.setupVerticalMetrics({g: (900 + 10 * i, 40 + i) for i, g in enumerate(order)}); fb.setupVerticalHeader(ascent=500, descent=-500)
            _add_implicit_var(fb.font, rng, "VVAR")
    b = io.BytesIO(); fb.font.save(b)
    return b.getvalue(), fea, tags

def _add_hvar(font, rng):
    """HVAR with an explicit AdvWidthMap whose rows are spread over 1-4 VarData"""
    from fontTools.ttLib import newTable
    from fontTools.ttLib.tables import otTables as ot
    from fontTools.varLib import builder as VB
    order = font.getGlyphOrder()
    nvd = rng.randint(1, 4)
    axes = ["wght", "wdth"]
    regions = [{"wght": (0, 1, 1)}, {"wdth": (0, 1, 1)}, {"wght": (-1, -1, 0)}]
    rows = [[] for _ in range(nvd)]; mapping = {}
    for i, g in enumerate(order):
        m = rng.below(nvd) if g != ".notdef" else nvd - 1
        rows[m].append([10 + 3 * i, 2 * i - 7, -(5 + i)]); mapping[g] = (m << 16) + len(rows[m]) - 1
    for m in range(nvd):
        if not rows[m]: rows[m].append([1, 1, 1])
    vs = VB.buildVarStore(VB.buildVarRegionList(regions, axes), [VB.buildVarData([0, 1, 2], r, optimize=False) for r in rows])
    h = newTable("HVAR"); h.table = ot.HVAR(); h.table.Version = 0x00010000; h.table.VarStore = vs
    h.table.AdvWidthMap = VB.buildVarIdxMap([mapping[g] for g in order], order); h.table.LsbMap = h.table.RsbMap = None
    font["HVAR"] = h

def _add_implicit_var(font, rng, tag):
    """HVAR/VVAR WITHOUT an advance map (VarData 0 row = glyph id), with side-bearing / origin maps that point at other glyphs' rows and
    into a second VarData"""
    from fontTools.ttLib import newTable
    from fontTools.ttLib.tables import otTables as ot
    from fontTools.varLib import builder as VB
    order = font.getGlyphOrder()
    axes = ["wght", "wdth"]
    regions = [{"wght": (0, 1, 1)}, {"wdth": (0, 1, 1)}]
    rows0 = [[10 + 7 * i, 3 * i - 11] for i in range(len(order))]
    rows1 = [[-5 - i, 4 + 2 * i] for i in range(rng.randint(1, 4))]
    vs = VB.buildVarStore(VB.buildVarRegionList(regions, axes), [VB.buildVarData([0, 1], rows0, optimize=False), VB.buildVarData([0, 1], rows1, optimize=False)])
    def side_map():
        if rng.chance(35): return None
        idx = []
        for i in range(len(order)):
            k = rng.below(3)
            idx.append(i if k == 0 else rng.below(len(order)) if k == 1 else (1 << 16) + rng.below(len(rows1)))
        return VB.buildVarIdxMap(idx, order)
    t = newTable(tag); t.table = getattr(ot, tag)(); t.table.Version = 0x00010000; t.table.VarStore = vs
    if tag == "HVAR":
        t.table.AdvWidthMap = None; t.table.LsbMap = side_map(); t.table.RsbMap = side_map()
    else:
        t.table.AdvHeightMap = None; t.table.TsbMap = side_map(); t.table.BsbMap = side_map(); t.table.VOrgMap = side_map()
    font[tag] = t

# ------------------------------------------------------------------ subsetting and comparison
IGNORABLE = set([0xAD, 0x34F, 0x61C, 0x115F, 0x1160, 0x17B4, 0x17B5, 0x3164, 0xFEFF, 0xFFA0]) | set(range(0x180B, 0x180F)) | \
    set(range(0x200B, 0x2010)) | set(range(0x202A, 0x202F)) | set(range(0x2060, 0x2070)) | set(range(0xFE00, 0xFE10)) | set(range(0xFFF0, 0xFFF9))

def _simple_cp(cp):
    if cp in IGNORABLE or cp < 0x20 or 0x7F <= cp < 0xA0: return False
    if not (cp < 0x0590 or 0x1E00 <= cp < 0x2000 or 0x2010 <= cp < 0x2028 or 0x2030 <= cp < 0x205F or 0x20A0 <= cp < 0x2C00 or 0xE000 <= cp < 0xF900):
        return False
    c = chr(cp)
    return unicodedata.normalize("NFD", c) == c and unicodedata.normalize("NFC", c) == c

def _stable(t):
    return unicodedata.normalize("NFC", t) == t and unicodedata.normalize("NFD", t) == t

def do_subset(data, unicodes=(), glyphs=(), opts=None):
    from fontTools.ttLib import TTFont
    from fontTools import subset
    f = TTFont(io.BytesIO(data))
    o = subset.Options()
    for k, v in (opts or {}).items(): setattr(o, k, v)
    s = subset.Subsetter(o); s.populate(unicodes=list(unicodes), glyphs=list(glyphs)); s.subset(f)
    order = list(f.getGlyphOrder())
    b = io.BytesIO(); f.save(b)
    return b.getvalue(), order

def compare_subset(data, order, sub, suborder, texts, feats_list, locs, requested, retain_gids, tol=0.01):
    """first difference between the original and the subset on what was asked for, or None"""
    from lib.hb import HBFont
    from fontTools.ttLib import TTFont
    # structural: the subset reloads completely (no dangling glyph references)
    try:
        f2 = TTFont(io.BytesIO(sub))
        for t in f2.keys(): f2[t]
        if hasattr(f2, "ensureDecompiled"): f2.ensureDecompiled()
    except Exception as e:
        return "the subset font does not load: %r" % (e,)
    if retain_gids:
        for g in requested:
            if g in order and (g not in suborder or suborder.index(g) != order.index(g)): return "retain_gids moved glyph %r" % g
    for g in requested:
        if g not in suborder: return "requested glyph %r is not in the subset" % g
    i0 = {g: i for i, g in enumerate(order)}; i1 = {g: i for i, g in enumerate(suborder)}
    has_v = "vmtx" in f2 and "vhea" in f2
    for loc in locs:
        h0 = HBFont(data, order, variations=loc); h1 = HBFont(sub, suborder, variations=loc)
        for feats in feats_list:
            for t in texts:
                a = h0.shape(t, features=feats); b = h1.shape(t, features=feats)
                if a != b: return "text %r features %r at %r: original shapes %r, subset %r" % (t, feats, loc, a, b)
        for g in requested:
            if g == ".notdef" or g not in i0: continue
            a = h0.advance(i0[g]); b = h1.advance(i1[g])
            if abs(a - b) > tol: return "advance of %r at %r: original %r, subset %r" % (g, loc, a, b)
            if has_v:
                a = h0.v_advance(i0[g]); b = h1.v_advance(i1[g])
                if abs(a - b) > tol: return "vertical advance of %r at %r: original %r, subset %r" % (g, loc, a, b)
            oa = h0.outline(i0[g]); ob = h1.outline(i1[g])
            if oa != ob: return "outline of %r at %r: original %r, subset %r" % (g, loc, oa[:4], ob[:4])
    return None

def _texts(rng, chars, nmax):
    chars = list(chars); out = []
    if len(chars) <= 3:
        for a in chars:
            out.append(a)
            for b in chars:
                out.append(a + b)
                for c in chars: out.append(a + b + c)
    else:
        out += chars
        for _ in range(nmax): out.append("".join(rng.choice(chars) for _ in range(rng.randint(2, 5))))
    out = [t for t in dict.fromkeys(out) if _stable(t)]
    return out[:nmax]

OPTION_SETS = [{}, {"layout_features": ["*"]}, {"retain_gids": True}, {"glyph_names": True, "layout_features": ["*"]},
               {"notdef_outline": True, "hinting": False}, {"desubroutinize": True, "layout_features": ["*"], "retain_gids": True},
               {"legacy_kern": True, "name_IDs": ["*"]}, {"prune_unicode_ranges": False, "recalc_bounds": True}]

def sweeps(tier, rng):
    from fontTools.ttLib import TTFont
    nf = 150 if tier == "quick" else 300 if tier == "search" else 3000
    nc = 10 if tier == "quick" else 25 if tier == "search" else 200
    def run_generated():
        for i in range(nf):
            variable = i % 3 == 2
            try:
                data, fea, tags = build_feature_font(rng, variable)
            except Exception as e:
                from fontTools.feaLib.error import FeatureLibError
                # a random program rejected by feaLib (e.g. conflicting rules) is not a subsetting matter; anything else is a harness fault
                yield (("generated", i, "rejected"), None if isinstance(e, FeatureLibError) else "font generator failed: %r" % (e,)); continue
            order = TTFont(io.BytesIO(data)).getGlyphOrder()
            base = [g for g in order if len(g) == 1]
            for r in range(4):
                k = rng.randint(1, min(4, len(base)))
                chars = sorted(set(rng.choice(base) for _ in range(k)))
                opts = dict(rng.choice(OPTION_SETS)); allfeat = opts.get("layout_features") == ["*"]
                if variable and rng.chance(35): opts["hinting"] = False          # hint removal must leave VARIATION device tables alone
                extra_glyphs = [rng.choice(order)] if rng.chance(25) else []
                try:
                    sub, suborder = do_subset(data, [ord(c) for c in chars], extra_glyphs, opts)
                except Exception as e:
                    yield (("generated", i, "".join(chars), sorted(opts)), "subsetting raised %r\n%s" % (e, fea)); continue
                feats = [{}]
                if allfeat: feats += [{t: True for t in tags if t in ("ss01", "salt")}] if any(t in ("ss01", "salt") for t in tags) else []
                locs = [None] + ([{"wght": 900, "wdth": 100}, {"wght": 100, "wdth": 200}, {"wght": 650, "wdth": 75}] if variable else [])
                bad = compare_subset(data, order, sub, suborder, _texts(rng, chars, 90), feats, locs, list(chars) + extra_glyphs, opts.get("retain_gids"))
                yield (("generated", i, "".join(chars), sorted(opts), variable), (bad + "\n" + fea) if bad else None)
    def run_corpus():
        cands = [p for p in corpus.binaries((".ttf", ".otf")) if os.path.getsize(p) < 400000]
        good = []
        for p in cands:
            try:
                f = TTFont(p, lazy=True)
                if ("GSUB" in f or "GPOS" in f or "fvar" in f or "kern" in f) and "VARC" not in f and ("glyf" in f or "CFF " in f or "CFF2" in f): good.append(p)
            except Exception: pass
        for p in corpus.pick(rng, good, nc):
            try:
                data = open(p, "rb").read(); f = TTFont(io.BytesIO(data)); order = f.getGlyphOrder()
                cmap = f.getBestCmap() or {}
                cps = [cp for cp in cmap if _simple_cp(cp)]
                if not cps or len(order) > 4000: continue
                axes = f["fvar"].axes if "fvar" in f else []
            except Exception:
                continue
            for r in range(2):
                chosen = sorted(set(rng.choice(cps) for _ in range(rng.randint(1, 6))))
                opts = dict(rng.choice(OPTION_SETS))
                try:
                    sub, suborder = do_subset(data, chosen, [], opts)
                except Exception as e:
                    # a font the subsetter rejects outright is not a case of "what it keeps"; count it
                    yield ((corpus.rel(p), "rejected %s" % type(e).__name__), None); continue
                locs = [None]
                if axes:
                    locs += [{a.axisTag: a.maxValue for a in axes}, {a.axisTag: a.minValue for a in axes},
                             {a.axisTag: a.minValue + (a.maxValue - a.minValue) * rng.randint(1, 15) / 16 for a in axes}]
                requested = [cmap[c] for c in chosen]
                try:
                    bad = compare_subset(data, order, sub, suborder, _texts(rng, [chr(c) for c in chosen], 40), [{}], locs, requested,
                                         opts.get("retain_gids"), tol=0.01)
                except Exception as e:
                    bad = "comparison raised %r" % (e,)
                yield ((corpus.rel(p), chosen, sorted(opts)), bad)
    return [Sweep("generated-feature-programs", run_generated), Sweep("corpus-subsets", run_corpus)]

def witness(fid): return None
