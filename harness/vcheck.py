#!/venv/bin/python
"""vcheck.py <ID> [--tier quick|thorough] [--replay file]

One check = (1) regenerate data from /repo, re-check the property's theorems (Props.v),
            (2) correspondence: extracted model vs /repo implementation on generated inputs,
            (3) implementation-side property oracles (the search for a failing input),
            (4) verdict, evidence, replay files.
See DESIGN.md section 2."""
import os, sys, json, time, importlib, traceback, argparse, hashlib

HERE = os.path.dirname(os.path.abspath(__file__))
VERIF = os.path.dirname(HERE)

def _reexec():
    want = {"PYTHONPATH": os.environ.get("FV_REPO", "/repo") + "/Lib", "PYTHONHASHSEED": "0",
            "PYTHONDONTWRITEBYTECODE": "1", "SOURCE_DATE_EPOCH": "1700000000"}
    exe = "/venv/bin/python" if os.path.exists("/venv/bin/python") else sys.executable
    if any(os.environ.get(k) != v for k, v in want.items()) or os.path.realpath(sys.executable) != os.path.realpath(exe) and os.environ.get("FV_REEXEC") != "1":
        env = dict(os.environ); env.update(want); env["FV_REEXEC"] = "1"
        os.execve(exe, [exe] + sys.argv, env)
_reexec()
sys.path.insert(0, HERE)
sys.setrecursionlimit(20000)
import logging; logging.disable(logging.CRITICAL)

from lib import coqbuild, ser as S
from lib.prng import Rng

def jsonable(x, depth=0):
    from fractions import Fraction
    if isinstance(x, (str, int, bool)) or x is None: return x
    if isinstance(x, float): return x
    if isinstance(x, Fraction): return str(x)
    if isinstance(x, (bytes, bytearray)): return "hex:" + bytes(x).hex()
    if isinstance(x, dict): return {str(k): jsonable(v, depth + 1) for k, v in x.items()}
    if isinstance(x, (list, tuple)): return [jsonable(v, depth + 1) for v in x]
    return repr(x)

class Corr:
    """one modelled function tied to the implementation"""
    def __init__(self, name, cases, impl, enc=None, oracle=None, tag=None, fn=None, near_tie=None, compare=None):
        self.name = name            # label (also registry name unless fn given)
        self.fn = fn or name        # registry entry in the extracted model
        self.cases = cases          # list of inputs
        self.impl = impl            # input -> python value (serialisable)
        self.enc = enc or (lambda x: x)
        self.oracle = oracle        # input -> None | str  (the PROPERTY on the implementation)
        self.tag = tag
        self.near_tie = near_tie    # (input, impl_ser, model_ser) -> bool : float tie, skip
        self.compare = compare      # (input, impl_ser, model_ser) -> True equal / False differ / None near tie

class Sweep:
    """implementation-side property oracle over many inputs: run() yields (case, failure|None)"""
    def __init__(self, name, run):
        self.name = name; self.run = run

def load_known():
    p = os.path.join(VERIF, "known_findings.json")
    if not os.path.exists(p): return []
    return json.load(open(p)).get("findings", [])

def main():
    ap = argparse.ArgumentParser()
    ap.add_argument("prop")
    ap.add_argument("--tier", default=os.environ.get("VERIF_TIER") or "quick")
    ap.add_argument("--replay")
    ap.add_argument("--no-proofs", action="store_true", help="debug: skip the proof re-check")
    a = ap.parse_args()
    prop = a.prop
    tier = a.tier if a.tier in ("quick", "thorough") else "quick"
    seed = int(os.environ.get("VERIF_SEED", "0") or 0)
    t0 = time.time()
    import fontTools
    repo = os.environ.get("FV_REPO", "/repo")
    assert os.path.abspath(fontTools.__file__).startswith(repo + "/Lib"), fontTools.__file__
    mod = importlib.import_module("props." + prop)
    if a.replay:
        return replay(mod, prop, a.replay)

    violations = []      # list of dicts {kind, replay, found_input}
    notes = []
    os.makedirs(os.path.join(VERIF, "replays"), exist_ok=True)
    os.makedirs(os.path.join(VERIF, "evidence"), exist_ok=True)
    import glob as _glob
    for old in _glob.glob(os.path.join(VERIF, "replays", "%s-%d-*.json" % (prop, seed))):
        try: os.remove(old)
        except OSError: pass

    # ---- (1) proofs
    with coqbuild.BuildLock():
        ok_data, data_msg, data_hashes = coqbuild.regen_data()
        coqbuild.coq_project()
        if a.no_proofs:
            proofs = {"ok": True, "theorems": coqbuild.parse_props(prop), "axioms": {}, "failed_at": None, "log_tail": "", "wall_s": 0}
        elif not ok_data:
            proofs = {"ok": False, "theorems": coqbuild.parse_props(prop), "axioms": {},
                      "failed_at": {"file": "tools/translate_data.py", "line": None, "item": "translator failed closed: " + data_msg[-800:]},
                      "log_tail": data_msg[-2000:], "wall_s": 0}
        else:
            proofs = coqbuild.check_proofs(prop, timeout=2400 if tier == "thorough" else 1500, coqchk=(tier == "thorough"))
        driver = None; driver_err = None
        try:
            driver = coqbuild.build_driver(prop)
        except Exception as e:
            driver_err = str(e)
    n_thm = len(proofs["theorems"])
    n_ok = n_thm if proofs["ok"] else 0
    print("%s %s: proofs %d/%d%s" % (prop, tier, n_ok, n_thm, "" if proofs["ok"] else "  BROKEN at %s" % (proofs["failed_at"],)), flush=True)

    # ---- (2) correspondence
    rng = Rng(seed, prop, tier)
    corr_stats = {"evaluations": 0, "mismatches": 0, "skipped_near_tie": 0, "functions": {}}
    tags = set(); samples = []
    mismatches = []
    corrs = []
    if driver is None:
        notes.append("model driver unavailable: " + (driver_err or "")[-500:])
        mismatches.append({"function": "<model build>", "input": None, "impl": None, "model": None, "note": (driver_err or "")[-1500:]})
    else:
        try:
            corrs = mod.correspondences(tier, rng)
        except Exception:
            traceback.print_exc()
            mismatches.append({"function": "<harness>", "input": None, "impl": None, "model": None, "note": traceback.format_exc()[-1500:]})
        for c in corrs:
            enc_cases = []; impl_out = []
            for x in c.cases:
                enc_cases.append((c.fn, S.ser(c.enc(x))))
                try:
                    impl_out.append(S.ser(c.impl(x)))
                except Exception as e:
                    impl_out.append([S.OTHER, -1])
                    notes.append("impl harness exception in %s: %r" % (c.name, e))
            model_out = coqbuild.run_model(driver, enc_cases) if enc_cases else []
            nm = 0; nt = 0
            for x, io, mo in zip(c.cases, impl_out, model_out):
                if c.compare is not None:
                    try:
                        verdict = c.compare(x, io, mo)
                    except Exception as e:
                        verdict = False; notes.append("compare raised %r" % (e,))
                    differ = verdict is False or isinstance(verdict, str)
                    if isinstance(verdict, str) and len(notes) < 20: notes.append("%s: %s" % (c.name, verdict))
                    if verdict is None: nt += 1
                else:
                    differ = io != mo
                if differ:
                    if c.near_tie is not None and c.near_tie(x, io, mo):
                        nt += 1; continue
                    nm += 1
                    if len(mismatches) < 50:
                        mismatches.append({"function": c.name, "input": jsonable(x), "input_ser": S.ser(c.enc(x)),
                                           "impl": io, "model": mo, "_x": x, "_c": c})
                t = c.tag(x) if c.tag else (tuple(io[:2]), min(len(io), 40))
                tags.add((c.name, t))
            if c.cases and len(samples) < 12:
                samples.append({"function": c.name, "input": jsonable(c.cases[0]), "impl_ser": impl_out[0][:40], "model_ser": model_out[0][:40]})
                if len(c.cases) > 1:
                    samples.append({"function": c.name, "input": jsonable(c.cases[-1]), "impl_ser": impl_out[-1][:40], "model_ser": model_out[-1][:40]})
            corr_stats["functions"][c.name] = {"cases": len(c.cases), "mismatches": nm, "near_tie": nt}
            corr_stats["evaluations"] += len(c.cases); corr_stats["mismatches"] += nm; corr_stats["skipped_near_tie"] += nt
    print("%s %s: correspondence %d/%d (%d near-tie)" % (prop, tier, corr_stats["evaluations"] - corr_stats["mismatches"],
          corr_stats["evaluations"], corr_stats["skipped_near_tie"]), flush=True)

    # ---- (3) property oracles on the implementation (the search)
    known = [k for k in load_known() if k["property"] == prop and not k.get("fixed")]
    known_hit = {}
    oracle_evals = 0; oracle_fail = []
    def note_failure(sweep, case, failure):
        fid = None
        try:
            fid = mod.classify(sweep, case, failure) if hasattr(mod, "classify") else None
        except Exception:
            fid = None
        if fid is not None and any(k["id"] == fid for k in known):
            known_hit.setdefault(fid, []).append(jsonable(case))
        else:
            oracle_fail.append({"sweep": sweep, "case": jsonable(case), "failure": str(failure)[:1500]})
    # oracle on correspondence inputs
    for c in corrs:
        if c.oracle is None: continue
        for x in c.cases:
            oracle_evals += 1
            try:
                f = c.oracle(x)
            except Exception as e:
                f = "oracle raised %r" % (e,)
            if f: note_failure(c.name, x, f)
    broke = (not proofs["ok"]) or corr_stats["mismatches"] > 0 or driver is None
    sweeps = []
    try:
        sweeps = mod.sweeps(tier if not broke else "search", rng.fork("sweeps")) if hasattr(mod, "sweeps") else []
    except Exception:
        # fail closed: a check whose oracles cannot even be constructed has shown nothing
        traceback.print_exc(); notes.append("sweeps() raised: " + traceback.format_exc()[-800:])
        oracle_fail.append({"sweep": "sweeps()", "case": None, "failure": "sweep harness exception: " + traceback.format_exc()[-800:]})
    sweep_stats = {}
    for s in sweeps:
        n = 0; nf = 0
        try:
            for case, failure in s.run():
                n += 1; oracle_evals += 1
                if failure:
                    nf += 1; note_failure(s.name, case, failure)
        except Exception:
            notes.append("sweep %s raised: %s" % (s.name, traceback.format_exc()[-800:]))
            oracle_fail.append({"sweep": s.name, "case": None, "failure": "sweep harness exception: " + traceback.format_exc()[-800:]})
        sweep_stats[s.name] = {"cases": n, "failures": nf}
    # replay every listed known finding's witness
    for k in known:
        still = None
        try:
            still = mod.witness(k["id"])
        except Exception as e:
            still = "witness check raised %r" % (e,)
        if still:
            print("KNOWN-FINDING: property=%s %s %s" % (prop, k["id"], k["what"]), flush=True)
        else:
            notes.append("known finding %s no longer reproduces (witness passes)" % k["id"])
    print("%s %s: oracle %d evaluations, %d unexplained failures, %d known-finding hits" %
          (prop, tier, oracle_evals, len(oracle_fail), sum(len(v) for v in known_hit.values())), flush=True)

    # ---- (4) verdict
    def write_replay(obj, n):
        p = os.path.join("replays", "%s-%d-%d.json" % (prop, seed, n))
        json.dump(jsonable(obj), open(os.path.join(VERIF, p), "w"), indent=1)
        return p
    nrep = 0
    _seen = set(); _distinct = []
    for f in oracle_fail:
        k = (f["sweep"], f["failure"][:30])
        if k in _seen: continue
        _seen.add(k); _distinct.append(f)
    for f in _distinct[:8]:
        p = write_replay({"property": prop, "kind": "input", "oracle": f["sweep"], "input": f["case"], "failure": f["failure"]}, nrep); nrep += 1
        violations.append("VIOLATION property=%s replay=%s" % (prop, p))
    if True:
        if corr_stats["mismatches"] > 0 or driver is None:
            _fn_seen = set()
            for m in mismatches:
                if m["function"] in _fn_seen: continue
                _fn_seen.add(m["function"])
                # does the property itself fail on the implementation at this input?
                found = None
                c = m.get("_c"); x = m.get("_x")
                if c is not None and c.oracle is not None:
                    try: found = c.oracle(x)
                    except Exception as e: found = "oracle raised %r" % (e,)
                obj = {"property": prop, "kind": "correspondence", "function": m["function"], "input": m["input"],
                       "input_ser": m.get("input_ser"), "impl_output": m["impl"], "model_output": m["model"],
                       "oracle": found, "note": m.get("note")}
                p = write_replay(obj, nrep); nrep += 1
                if found:
                    violations.append("VIOLATION property=%s replay=%s" % (prop, p))
                else:
                    violations.append("VIOLATION property=%s replay=%s no-failing-input-found" % (prop, p))
        if not proofs["ok"]:
            obj = {"property": prop, "kind": "theorem", "failed_at": proofs["failed_at"], "log_tail": proofs["log_tail"][-1500:],
                   "theorems": [t["name"] for t in proofs["theorems"]]}
            p = write_replay(obj, nrep); nrep += 1
            violations.append("VIOLATION property=%s replay=%s no-failing-input-found" % (prop, p))

    wall = time.time() - t0
    ev = {
        "property_id": prop, "tier": tier, "seed": seed, "level": "proof",
        "coverage": {
            "obligations": max(n_thm, 1), "discharged": n_ok,
            "checker_cmd": "make -C coq theories/%s/Props.vo && coqc -Q theories FV theories/%s/Props.v (Print Assumptions parsed; grep gate)" % (prop, prop),
            "trusted_base": getattr(mod, "TRUSTED", []) + [
                "Coq 8.16.1 kernel (coqc; vm_compute used by finite-domain lemmas; no native_compute)",
                "extraction (ExtrOcamlBasic only) + ocaml/driver_tail.ml + harness/lib/ser.py for the correspondence",
                "tools/translate_data.py for regenerated Data_*.v",
                "hand-written models in coq/theories/%s/Model.v, tied to /repo/Lib only by the correspondence below" % prop],
            "theorems": [{"name": t["name"], "statement": t["statement"][:400], "axioms": proofs["axioms"].get(t["name"])} for t in proofs["theorems"]],
            "evaluations": corr_stats["evaluations"] + oracle_evals,
            "distinct_nontrivial": len(tags),
            "rule": getattr(mod, "RULE", "") + " distinct_nontrivial = distinct (function, outcome class, first output token, output length<=40) pairs seen in the correspondence run",
            "samples": samples[:12] or [{"note": "no correspondence cases"}],
            "traces_validated_against_impl": corr_stats["evaluations"] - corr_stats["mismatches"],
            "correspondence": corr_stats,
            "skipped_near_tie": corr_stats["skipped_near_tie"],
            "oracle_evaluations": oracle_evals, "oracle_sweeps": sweep_stats,
            "oracle_failures_known": {k: len(v) for k, v in known_hit.items()},
            "oracle_failures_unexplained": len(oracle_fail),
            "data_regenerated": data_hashes,
            "proof_wall_s": round(proofs.get("wall_s", 0), 1),
            "coqchk": proofs.get("coqchk", "not run in this tier (thorough only)"),
            "notes": notes[:20],
            "explanation": "theorems are about the Gallina model; the correspondence and oracle counts are testing, not proof",
        },
        "assumptions": getattr(mod, "ASSUMPTIONS", []),
        "wall_s": round(wall, 2), "violations": len(violations),
    }
    json.dump(ev, open(os.path.join(VERIF, "evidence", prop + ".json"), "w"), indent=1)
    for v in violations: print(v, flush=True)
    print("%s %s: %s in %.1fs" % (prop, tier, "FAIL" if violations else "ok", wall), flush=True)
    sys.exit(1 if violations else 0)

def replay(mod, prop, path):
    obj = json.load(open(path if os.path.isabs(path) else os.path.join(VERIF, path)))
    print(json.dumps(obj, indent=1)[:4000])
    if hasattr(mod, "replay"):
        r = mod.replay(obj)
        print("replay result:", r)
        sys.exit(1 if r else 0)
    sys.exit(0)

if __name__ == "__main__":
    main()
