#!/venv/bin/python
"""setup: full build of the Coq development and of every property's extracted driver (offline)."""
import os, sys, glob
HERE = os.path.dirname(os.path.abspath(__file__))
sys.path.insert(0, HERE)
from lib import coqbuild

def main():
    with coqbuild.BuildLock():
        ok, msg, _ = coqbuild.regen_data()
        print(msg.strip())
        if not ok: sys.exit(1)
        coqbuild.coq_project()
        rc, out, t = coqbuild.make([], timeout=3000)
        print(out[-3000:])
        print("make: rc=%d in %.0fs" % (rc, t))
        if rc != 0: sys.exit(1)
        for p in sorted(glob.glob(os.path.join(coqbuild.COQ, "theories", "C[0-9][0-9]", "Registry.v"))):
            prop = os.path.basename(os.path.dirname(p))
            print("driver", prop, coqbuild.build_driver(prop))
    hits = coqbuild.grep_gate()
    if hits:
        print("forbidden tokens:", hits); sys.exit(1)
    print("setup ok")

if __name__ == "__main__":
    main()
