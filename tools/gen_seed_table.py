#!/usr/bin/env python3
"""Rewrite the region between the SEED TABLE markers of DESIGN.md from seeded/RESULTS.json and seeded/*/meta.json."""
import json, os, re, glob
V = os.path.dirname(os.path.dirname(os.path.abspath(__file__)))
res = json.load(open(os.path.join(V, "seeded", "RESULTS.json")))
rows = ["| change | what it breaks (files) | reported by | VIOLATION lines |", "|---|---|---|---|"]
for name in sorted(res):
    r = res[name]
    meta = {}
    try: meta = json.load(open(os.path.join(V, "seeded", name, "meta.json")))
    except Exception: pass
    summ = re.sub(r"\s+", " ", meta.get("summary", ""))[:170]
    files = ", ".join(os.path.basename(f) for f in meta.get("files", []))
    if "error" in r: by = "ERROR " + r["error"]; n = "-"
    else:
        parts = []
        if r["proofs"].split("/")[0] != r["proofs"].split("/")[1]: parts.append("proof broken")
        if r["correspondence_mismatches"]: parts.append("correspondence: " + ", ".join("%s (%d)" % kv for kv in sorted(r["correspondence_mismatches"].items())))
        if r["sweep_failures"]: parts.append("sweep: " + ", ".join("%s (%d)" % kv for kv in sorted(r["sweep_failures"].items())))
        by = "; ".join(parts) if parts else ("MISSED" if not r["violations"] else "oracle on correspondence inputs")
        n = "%d%s" % (r["violations"], " (no-failing-input-found only)" if r.get("no_failing_input_only") else "")
    rows.append("| %s | %s (%s) | %s | %s |" % (name, summ.replace("|", "/"), files, by, n))
p = os.path.join(V, "DESIGN.md"); s = open(p).read()
a = s.index("<!-- BEGIN SEED TABLE -->") + len("<!-- BEGIN SEED TABLE -->"); b = s.index("<!-- END SEED TABLE -->")
open(p, "w").write(s[:a] + "\n" + "\n".join(rows) + "\n" + s[b:])
print("seed table: %d rows, %d missed" % (len(rows) - 2, sum(1 for r in res.values() if not r.get("violations"))))
