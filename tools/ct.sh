#!/bin/bash
# ct.sh <file.v> [timeout]: compile with per-command timing, show error + slowest commands
cd /verif/coq
timeout ${2:-120} coqtop -time -Q theories FV -l "$1" < /dev/null > /tmp/ct.out 2>&1
rc=$?
grep -v "^Chars" /tmp/ct.out | grep -v "^$" | head -${3:-30} | cut -c1-400
echo "--- rc=$rc; last:"; grep "^Chars" /tmp/ct.out | tail -1 | cut -c1-200
awk '{ for(i=1;i<=NF;i++) if ($i=="secs") print $(i-1), $0 }' /tmp/ct.out | sort -rn | head -4 | cut -c1-140
