#!/bin/bash
# run_all_seeds.sh [SEEDS_ONLY=C07]: apply every seeded change under /verif/seeded/<ID>-m*/ in turn, run that property's quick check, record which part
# of the machinery reported it (proof / correspondence / sweep), always revert. Writes /verif/seeded/RESULTS.json
set -u
cd /verif
/venv/bin/python - <<'PY'
import json, os, subprocess, glob, re
only = os.environ.get("SEEDS_ONLY", "")
out = json.load(open("/verif/seeded/RESULTS.json")) if only and os.path.exists("/verif/seeded/RESULTS.json") else {}
for d in sorted(glob.glob("/verif/seeded/C*-m*")):
    if only and not os.path.basename(d).startswith(only): continue
    name = os.path.basename(d); pid = name.split("-")[0]
    patch = os.path.join(d, "patch.diff")
    if subprocess.call(["git", "-C", "/repo", "apply", patch]) != 0:
        out[name] = {"error": "patch does not apply"}; continue
    try:
        p = subprocess.run(["/venv/bin/python", "harness/vcheck.py", pid, "--tier", "quick"], capture_output=True, text=True, timeout=1800)
        txt = p.stdout + p.stderr
        ev = json.load(open("/verif/evidence/%s.json" % pid))
        cov = ev["coverage"]
        corr = {k: v["mismatches"] for k, v in cov.get("correspondence", {}).get("functions", {}).items() if v.get("mismatches")} if isinstance(cov.get("correspondence"), dict) else {}
        sweeps = {k: v.get("failures") for k, v in cov.get("oracle_sweeps", {}).items() if v.get("failures")}
        out[name] = {"exit": p.returncode, "violations": len(re.findall(r"^VIOLATION", txt, re.M)),
                     "no_failing_input_only": bool(re.search(r"no-failing-input-found", txt)) and not re.search(r"^VIOLATION property=\S+ replay=\S+$", txt, re.M),
                     "proofs": "%s/%s" % (cov.get("discharged"), cov.get("obligations")), "correspondence_mismatches": corr, "sweep_failures": sweeps}
    except Exception as e:
        out[name] = {"error": repr(e)}
    finally:
        subprocess.call(["git", "-C", "/repo", "checkout", "--", "."])
    print(name, json.dumps(out[name]), flush=True)
json.dump(out, open("/verif/seeded/RESULTS.json", "w"), indent=1, sort_keys=True)
PY
git -C /repo status --short | head -3
