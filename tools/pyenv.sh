#!/bin/sh
# run a python script in the same environment vcheck.py uses (the script gets /verif/harness on sys.path through sitecustomize-free -c bootstrap)
f="$1"; shift
cd /verif/harness && exec env PYTHONPATH=/repo/Lib PYTHONHASHSEED=0 SOURCE_DATE_EPOCH=1700000000 PYTHONDONTWRITEBYTECODE=1 /venv/bin/python -c "import sys; sys.path.insert(0,'/verif/harness'); sys.argv=['$f']+sys.argv[1:]; exec(compile(open('$f').read(),'$f','exec'))" "$@"
