#!/venv/bin/python
"""Regenerates MANIFEST.json from the table below (run after adding a property check)."""
import json, os
VERIF = os.path.dirname(os.path.dirname(os.path.abspath(__file__)))
PY = "/venv/bin/python"

NOTE = ("Trusted: Coq 8.16.1 kernel (+vm_compute; no native_compute); axioms as printed by Print Assumptions per theorem "
        "(evidence.coverage.theorems[].axioms; target: closed under the global context); extraction with ExtrOcamlBasic only "
        "(Z/positive/Q stay inductive) + ocaml/driver_tail.ml + harness/lib/ser.py; tools/translate_data.py for regenerated data; "
        "the hand-written Gallina models are tied to /repo/Lib only by the correspondence run of this check. See DESIGN.md section 6.")

CLAIMED = {
 # id: (text, technique)
 "C15": ("Round-trip theorems (all inputs of each codec's domain, unbounded) for the Gallina transcriptions of the CFF/T2/T1 integer "
         "and 16.16 operand codecs, 255UInt16, UIntBase128 (plus totality of its decoder), uint32var, eexec, and the gvar/cvar run-length "
         "codecs for packed deltas (zero/byte/word/long runs, 64-value chunks; every int32 list compiles) and packed point numbers (byte/word "
         "runs of up to 128 points, 15-bit count), table tags as identifiers, and sstruct pack/unpack/calcsize over the descriptors of every format string of the library (regenerated from the source on every run: round trip in both directions, size, nearest-grid rounding of fixed-point fields); the models are tied to "
         "the Python functions by differential correspondence on boundary-directed and malformed inputs and by the round-trip oracle on the "
         "implementation. Codecs not yet modelled are listed in DESIGN.md section C15.",
         "Rocq proof of codec round-trip theorems over a hand-written model + extracted-model/implementation correspondence"),
 "C04": ("Theorems over the Gallina transcription of the sfnt writer (calcChecksum, getSearchRange, SFNTWriter.__setitem__/close/"
         "_calcMasterChecksum): checksum additivity over aligned blocks and padding invariance, search fields equal the OpenType definition "
         "(largest power of two <= numTables), every table lies 4-aligned/in bounds/non-overlapping with exactly its bytes where the directory "
         "says (layout_sound), a file with one head table checksums to 0xB1B0AFBA (master_checksum), and the written file is read back by the reader model of C20: directory found, every table loaded with exactly the bytes written, head apart from checkSumAdjustment (written_file_reads_back, any number of tables; also: every table is compiled after the tables it depends on, for any declarations (compile_order_respects_dependencies), and the declarations regenerated from the source on every run contain every pair the derived fields need and have no cycle; the hypothesis the proof first needed -- head at least 12 bytes -- exposed defect F23, repaired by a fix: commit). WOFF2's transformed glyf table: the "
         "point triplets of a simple glyph (_encodeTriplets / _decodeTriplets, all 128 delta classes with their bit packing) are modelled; for "
         "every point list the encoder accepts, decoding returns exactly the points and leaves what follows in both streams untouched, and the "
         "encoder accepts a step exactly when both components fit 16 bits (bit operations reduced to arithmetic by small finite sweeps, the six "
         "classes by linear arithmetic). maxp's composite statistics (getCompositeMaxpValues with its depth accumulator) equal the totals of the "
         "flattened glyph and its nesting depth for every glyph tree. Tied to the code by byte-exact "
         "correspondence on random table lists and on point lists at every class boundary (plus damaged streams for the decoder); WOFF/WOFF2/TTC containers and all derived fields (bboxes, maxp, hhea, hmtx, loca) are checked "
         "on the implementation by an independent spec reader over corpus and generated boundary fonts (testing, reported as such).",
         "Rocq proof over a hand-written writer model + byte-exact correspondence + independent-reader sweep"),
 "C20": ("Theorems over the Gallina transcription of SFNTReader.__init__/readTTCHeader/DirectoryEntry.fromFile/loadData: for EVERY byte "
         "string the outcome of opening a plain sfnt or collection and of loading a table is a value or the library's own error "
         "(open_sfnt_clean, load_table_clean), a loaded table lies wholly inside the file and is exactly those bytes (load_table_in_bounds); "
         "state-machine theorems for the ignoreDecompileErrors fallback (undecodable tables re-saved byte for byte) and for save (any failing "
         "compile leaves the file system unchanged). Tied to the code by outcome/directory correspondence on truncated, corrupted and synthetic "
         "headers; WOFF/WOFF2 containers, payload corruption, forced compile failures and code-execution canaries (safeEval, TTX attributes, "
         "output naming, varLib.main writing only inside --output-dir for hostile variable-font filenames) are implementation-side sweeps (testing). Known finding F6 (WOFF/WOFF2 leak zlib/brotli/assert errors) is listed; "
         "F5 (TTC header) was repaired by a fix: commit.",
         "Rocq proof of reader totality/outcome classes over a hand-written model + correspondence + fault-injection sweeps"),
 "C19": ("Theorems over the Gallina transcription of userNameToFileName/handleClash1 (both copies; their illegal/reserved tables are "
         "REGENERATED from the Python source on every run): the result never clashes case-insensitively with an existing name, any sequence of "
         "names yields pairwise distinct files ignoring case, no illegal character survives in the generated part, the clash fallback respects "
         "the 255 limit, the regenerated tables contain every character/name the target file systems forbid (tables_cover_spec, re-proved against "
         "the current source), and the unconditional 255 bound is REFUTED by a machine-checked witness (known finding F1). Axis maps: "
         "get_validated_map, map_forward (the literal piecewiseLinearMap dictionary scans) and map_backward (its sort and segment walk) are "
         "modelled over exact rationals; for a map written in ANY entry order with pairwise different, strictly increasing entries "
         "map_backward(map_forward v) == v and map_forward(map_backward d) == d for ALL v, d; for strictly decreasing maps both hold inside "
         "the node range and a machine-checked counterexample shows the range cannot be dropped (slope +1 extrapolation); conflicting inputs "
         "are refused. UFO 1/2 -> 3 kerning conversion (as repaired by the fix: commits for F21 and F22): the whole function is modelled; every renamed "
         "group gets its own new name, none an existing group name nor an existing kerning entry, on both sides together, and every kerning value is found under the renamed names (convert_keeps_every_value; F22 was found because the proof needed a side condition the code did not meet). Correspondence on adversarial name sequences, on "
         "generated kerning/groups dictionaries and on random maps (unsorted, flat, non-monotone, duplicate, "
         "conflicting); designspace/plist/GLIF/UFO write-read equality are implementation sweeps (testing). "
         "F2 (misc/filenames raw-string table) repaired by a fix: commit.",
         "Rocq proof over a model with source-regenerated tables + correspondence + write/read sweeps"),
 "C13": ("Theorems over exact rationals for the Gallina transcription of cu2qu: convex-hull (disc) lemma for cubics/quadratics, soundness "
         "of cubic_farthest_fit_inside at every recursion depth, every accepted quadratic segment is within the tolerance of its cubic piece for "
         "all t in [0,1] (error-curve identity + soundness), split_cubic_into_two/three are exact reparametrisations, a single-quadratic result "
         "keeps the end points. The whole of curve_to_quadratic (splits, control points, intersection, n search) is modelled and tied to the "
         "binary64 code by decision/coordinate correspondence with near-tie detection; curves_to_quadratic (same n), qu2cu and "
         "cu2qu.ufo glyph conversion are dense-sampling sweeps on the implementation (testing).",
         "Rocq proof over Q of the tolerance check's soundness + model/implementation correspondence + dense-sampling sweeps"),
 "C09": ("Theorems over exact rationals: interpolating the stored deltas at a master's location returns exactly that master for ANY "
         "lower-triangular weight matrix (deltas_reproduce_masters, induction over the master list), tents are 1 at the peak and within [0,1], "
         "the negative-side decomposition used by rebaseTent is exact (neg_chop), normalizeValue sends min/default/max to -1/0/+1 and clamps into "
         "[-1,1], renormalizeValue sends the new limits to -1/0/+1. The master-order bookkeeping of VariationModel (origLocations, mapping, "
         "reverseMapping, the getSubModel cache, reorderMasters incl. its half-failed case) is modelled as a state machine: over ANY history "
         "every getSubModel answer equals that of a cache-free model and the index maps stay correct (refinement + invariant by induction over "
         "the operation list; operation-sequence correspondence against the real class). normalizeValue, supportScalar, piecewiseLinearMap, renormalizeValue and the "
         "whole of _solve/rebaseTent are modelled and tied to the code by exact/1e-9 correspondence; on the implementation the property itself "
         "is evaluated: rebased tents sum to the original tent at 33 points of the new range for every continuous tent, random master sets are "
         "reproduced exactly and via master weights, IUP-optimised deltas reconstruct within tolerance, VarStore optimize/subset/prune preserve "
         "values (testing). Not proved: the full solve_exact theorem and the support construction of VariationModel.",
         "Rocq proof over Q of the delta core and tent algebra + correspondence of the solver/normalisation models + exact-arithmetic sweeps"),
 "C14": ("Theorems over exact rationals: Transform composition and inverse act on points as documented, affine maps commute with "
         "Bezier interpolation, reversing a path (segments reversed, control points reversed) negates AreaPen's signed area and is an "
         "involution, the quadratic/line/cubic area formulas are mutually consistent (degree elevation), translation changes each segment's "
         "area by a telescoping boundary term. Transform, AreaPen and the whole of reversedContour are modelled; reversedContour is tied to the "
         "code by exact call-list correspondence. The two protocol adapters are modelled call by call (SegmentToPointPen incl. its closing-point "
         "merge, the discarded unfinished contour and its error cases; PointToSegmentPen incl. rotation to the first on-curve point, the "
         "segment cutter, the implied closing line rule and its error cases): segment -> point -> segment returns every open contour "
         "unchanged, every closed contour in a canonical form proved to be the same contour (same start, same segments once the closing line "
         "is written out), and a quadratic contour without on-curve points unchanged; the one- and two-point degenerate cases that come back "
         "as an open single point are stated, not hidden. dropImpliedOnCurvePoints on one simple glyph is modelled as repaired (F20): only "
         "exact midpoints between off-curve neighbours with equal flags go, end points are renumbered by the count of dropped indices before "
         "them, and a cubic contour starting on the second handle of a curve keeps an on-curve point. Exact correspondence of the adapters and "
         "of dropImpliedOnCurvePoints on well-formed and malformed inputs. On the "
         "implementation: every adapter (record/replay, segment<->point, transform, reverse "
         "(both protocols), bounds, TTGlyphPen/TTGlyphPointPen with dropImpliedOnCurves, T2CharStringPen, super-bezier and quadratic "
         "decomposition) is compared through an independent canonical geometry (testing).",
         "Rocq proof over Q of transform/area/reversal algebra + exact correspondence of reversedContour + canonical-geometry sweeps"),
 "C17": ("Theorems: the glyph-name -> glyph-ID map is never stale after ANY sequence of setGlyphOrder / lookups (invariant over the "
         "operation list; the map sends a name to its last index in the current order), |scale(v) - f*v| <= 1/2, scale by 1 is the identity, "
         "a sum of n scaled values is within n/2 of the scaled sum, and every design-unit field of the OpenType text (a hand-written list) "
         "is registered with the scaler while non-length fields are not — re-proved against the attribute list REGENERATED from scaleUpem.py on "
         "every run. reorderGlyphs: re-sorting a Coverage by the new glyph ids together with the list parallel to it (stable sort, the length "
         "assertion, the empty-list shortcut) keeps every glyph with its entry and leaves the coverage in glyph-id order, for any glyph "
         "order and any lists; the rule table _REORDER_RULES, REGENERATED from reorderGlyphs.py on every run, names for every Coverage of the "
         "OpenType text exactly the parallel array the text orders by it (hand-written list) and nothing else. Tied to the code by "
         "operation-sequence correspondence (incl. in-place permutation of the font's own list), ReorderCoverage.apply correspondence and exact "
         "scale correspondence; reorderGlyphs / scale_upem on corpus and generated fonts are compared by glyph name through HarfBuzz (testing). "
         "F10 (MATH fields not scaled) repaired by a fix: commit.",
         "Rocq proof of the cache invariant and rounding bounds + source-regenerated field list + correspondence + HarfBuzz sweeps"),
 "C18": ("Theorems over the Gallina transcription of computeMegaGlyphOrder and the merged character map: every glyph of every input "
         "appears exactly once in the merged order under a unique name (merged = concatenation of the renamed orders, NoDup, by induction "
         "over inputs and glyphs with the freshness of each generated name), renaming only appends a suffix, and a character maps to the glyph "
         "of the FIRST input that supports it (cmap_first_wins). Tied to the code by exact correspondence on colliding name sets and overlapping "
         "maps; whole merges of generated fonts (shared/disjoint charsets, names that already look renamed, required features, shared scripts) are "
         "compared per character and per text through HarfBuzz with the first supporting input (testing). Layout: mergeScriptRecords / "
         "mergeScripts / mergeLangSyses / mergeFeatureLists / mergeFeatures are modelled (group by tag in an insertion-ordered dict, sort, the "
         "single-input pass-through, the required-feature assertion): merged script, language-system and feature records come out in STRICT "
         "tag order (what a shaper's binary search needs) and a feature tag switches on exactly the lookups the inputs gave it, in input "
         "order (any number of inputs, any record order); correspondence against the real functions on otTables objects. Lookup index "
         "remapping is sweep-only.",
         "Rocq proof of naming uniqueness and first-wins cmap + correspondence + HarfBuzz merge sweeps"),
 "C16": ("Theorems: numbering built with sorted(set(...)) depends only on the SET (permutation and multiplicity invariance: two strictly "
         "sorted lists with the same elements are equal); the save state machine (tables written in order; a loaded table is compiled, which may "
         "side-effect-load further tables; an unloaded one is copied raw) is IDEMPOTENT and independent of the history of accesses — under the "
         "hypothesis that every side-effect-loaded table was loaded before or is byte-stable — and the unconditional statement is REFUTED by a "
         "machine-checked two-table witness (known finding F13). The state machine is tied to TTFont.save by feeding it the OBSERVED write order, "
         "preloaded set, side-effect loads and raw/recompiled bytes of corpus fonts and comparing its predicted first/second-save bytes per table; "
         "pipelines are re-run in subprocesses under three PYTHONHASHSEED values; saves are checked not to disturb flags, dumps or later saves "
         "(testing). ttFont.sortedTagList (the order keys()/save()/reorderTables use; recommended orders regenerated from the source) is proved "
         "to depend on the SET of tables only, to list each table once, to equal 'recommended tags present, then the rest sorted', and to end "
         "with DSIG; tied by correspondence on shuffled tag sets. F12 (hash-seed-dependent bsln/prop subsetting) repaired by a fix: commit; subsets with ties are re-run under six hash seeds and saves under SOURCE_DATE_EPOCH (0 included) at two clock times.",
         "Rocq proof of set-invariance, table-order and save idempotence/refutation + instrumented save correspondence + hash-seed subprocess sweeps"),
 "C01": ("Theorems over the save state machine (shared with C16), parametric in every table's codec: a table that was not loaded and "
         "that no compile side-effect-loads is written byte for byte from the reader whatever else is loaded or compiled "
         "(untouched_passthrough), a loaded table is written as the encoding of its content, a codec that is lossless on decoded values "
         "reaches a byte fixed point at the second generation, and decoder-less tables are verbatim. The machine is tied to TTFont.save by the "
         "instrumented correspondence; the per-table codecs are exercised on the implementation: corpus fonts covering every table tag, "
         "generated fonts, hand-assembled WOFF at the zlib break-even size, transplanted unknown tables x lazy modes — decoded content, "
         "second-generation fixed point, pass-through of untouched tables (testing). Known finding F8 (Silf).",
         "Rocq proof of pass-through/fixed-point over a parametric save machine + instrumented correspondence + recompile sweeps"),
 "C02": ("Round-trip theorems for the Gallina transcriptions of the hmtx/vmtx codec (trailing-advance trimming: decoding with the "
         "numberOfHMetrics the compiler chose returns every glyph's metrics; that count is minimal) and of loca (round trip; the short format "
         "is chosen exactly when every offset is even and below 0x20000) and of the simple-glyph point data of glyf (flag stream with repeat "
         "runs, zero/short/word coordinate forms: compileDeltasGreedy then decompileCoordinates is the identity on every non-empty point list "
         "with int16 deltas), and of cmap formats 12 and 13 (sort, run detection, group records, header with its length checks, group "
         "expansion, the character map built from it: the compiled subtable decodes to the same map sorted by code with glyph 0 meaning "
         "not mapped; the run-length grouping loses nothing for ANY pair list), and of the component records of composite glyphs (argument "
         "widths, the three transform forms, the flag word: decode after encode is the identity), and of kern format 0 (both headers, sorted "
         "records, signed values), and of cmap format 6 (code range filled with glyph 0 and dropped again on reading), and of cmap format 4 (splitRange and the run splitting: the segments tile the mapped codes whatever the split heuristics decide; delta and glyph-index-array segments; decompile after compile is the identity on every mapping with 16-bit glyph IDs), for all metric/offset/point lists, character maps, components and kerning pair sets. Tied to "
         "the table classes by byte-exact correspondence incl. malformed data for the decoders. The remaining codecs (cmap 0/2/14, simple glyphs with every flag/"
         "repeat pattern and both coordinate compilers, components, whole glyf/loca tables around the 0x20000 limit with every padding, gvar "
         "tuple variations with 1..300 explicit points, name, kern) are implementation round-trip sweeps on generated contents (testing). "
         "F7 (empty cmap 12/13) repaired by a fix: commit.",
         "Rocq proof of hmtx/loca/glyf-points/components/cmap4-6-12-13/kern0 codec round trips + byte-exact correspondence + generated-content round-trip sweeps"),
 "C03": ("Theorems over the Gallina transcription of the TTX text layer: escape / escapeattr followed by a specification-level XML "
         "un-escaper return every string of legal XML characters (attribute values up to exactly the TAB/LF->space normalisation the property "
         "allows), by induction over the string; hexStr/deHexStr round-trip every byte string; num2binary/binary2num (bit fields as groups of binary digits) round-trip every value that fits its width; the TrueType instruction disassembler and assembler (ttProgram, token level, over instruction tables regenerated from the source on every run): whatever toXML writes for a program, fromXML assembles back into the same bytecode (program_roundtrip), and the automatic PUSH[ ] packing pushes exactly its arguments (push_auto_values). The transcriptions AND the specification-level "
         "un-escaper are tied by correspondence to xmlWriter and to expat. Per-table toXML/fromXML is covered on the implementation: corpus fonts "
         "covering every table tag and generated fonts (instruction streams with every PUSH boundary value, glyph names colliding as file names, "
         "COLRv1) dumped with every option set into mixed-case paths and re-imported — all option sets give the same table bytes, generation 1 "
         "and 2 are byte and text fixed points, generation 0 and 1 agree through HarfBuzz and through the object model (point flags, coordinates, instructions, CFF dictionary numbers; edited inputs) (testing). Known finding F11 (pre-1970 timestamps).",
         "Rocq proof of escaping round trips + correspondence to xmlWriter/expat + TTX generation/option sweeps"),
 "C12": ("Theorem generalize_preserves_all: for ALL 13 Type 2 path operators (incl. the alternating hv/vhcurveto families, rcurveline, rlinecurve) and EVERY "
         "argument list the generaliser accepts, interpreting the generalised commands draws exactly what the interpreter draws for the "
         "original operator — two independent transcriptions (T2OutlineExtractor vs _GeneralizerDecombinerCommandsMap), by induction over the "
         "argument list. Theorems specialize_keeps_topology / specialize_keeps_fill / specialize_same_endpoint: a transcription of "
         "specializeCommands phases 1-6 (made-up operators, backward in-place loops, stack bookkeeping, argument swaps), for EVERY maxstack "
         "and every list of generalised commands, emits commands the interpreter accepts and draws segment for segment the input with moves "
         "combined (preserveTopology) or the input modulo the five documented merges (fill_eq), ending at the same point. All transcriptions are tied to the code by "
         "correspondence (every arity 0..26; generalised command lists x maxstack x topology mode). On the implementation: an independent Type 2 interpreter written from TN#5177 vs "
         "T2CharString.draw, specialise/generalise (with and without topology) modulo the fill-preserving equivalence, operand-stack limit and "
         "arities of emitted programs, bytecode compile/decompile, width re-encoding, and desubroutinize / remove_hints / CFF<->CFF2 on corpus "
         "fonts and a generated font whose subroutines mix hints and path (testing). Known finding F14 (CFF->CFF2->CFF raises).",
         "Rocq proof that generalisation and specialisation preserve the interpreter's drawing + correspondence of the models + rewrite sweeps"),
 "C05": ("Theorems over exact rationals: the inferred delta computed by iup_segment is, for every coordinate, the one the OpenType "
         "specification defines for points without explicit deltas (a relational specification written from the gvar text, "
         "iup1_meets_spec), never overshoots the reference deltas, and does not depend on the order of the two reference points; for whole "
         "contours (iup_contour_spec) explicit deltas are kept and every other point is inferred from the nearest explicit points before "
         "and after it around the contour, wrap-around included. The delta-set index maps through which HVAR/VVAR find advance deltas "
         "(getEntryFormat, VarIdxMapValue packing, the DeltaSetIndexMap table) are modelled too: for every list of 32-bit variation indices "
         "compile succeeds and decompile returns the list (index_map_roundtrip; bit operations by bit inclusion and arithmetic forms). "
         "iup_segment/iup_contour/iup_delta are modelled and tied to the code by exact correspondence on rational inputs with every "
         "explicit/inferred pattern. The rest of the pipeline (outline decoding, components, gvar application order, phantom-point advances, "
         "HVAR, avar, clamping, CFF/CFF2 charstrings incl. flex ties) is compared glyph by glyph with HarfBuzz on corpus and generated fonts at "
         "default, extreme, random and out-of-range locations, incl. CFF2 fonts whose PrivateDict selects the variation data and CFF fonts with subroutine counts in different bias bands (testing). F25 (CFF2 blender ignoring the PrivateDict vsindex) repaired by a fix: commit.",
         "Rocq proof that inferred deltas meet the specification and that advance index maps round-trip + exact correspondence + HarfBuzz glyph sweeps"),
 "C06": ("The pure-Python packer (OTTableWriter: hash-consing with structural keys and Extension scoping, gathering order with "
         "sortCoverageLast and the extension area, positions, offset emission) is transcribed into Gallina and reproduces the real packer's "
         "output BYTE FOR BYTE on writer graphs captured from corpus and generated layout tables. Theorems: an emitted offset field reads back "
         "as exactly the distance to the sub-table and fits its width (no wrapped offsets: out-of-range distances raise), every table's bytes "
         "start at the running sum of the preceding lengths, and that is the position offsets were computed from. The subtable splits used to "
         "repair overflows (splitPairPos formats 1 and 2, splitSinglePos) are modelled: for every first glyph the two halves, tried in order, "
         "give the record the whole subtable gave (class 0 and the renumbering included); correspondence on the real otTables objects. The other "
         "overflow repairs (Extension promotion), the HarfBuzz repacker and GPOS compaction 0..9 are checked on the implementation pair by pair / "
         "sequence by sequence against the rule text through HarfBuzz on tables that overflow 16-bit offsets, and every splitTable entry is also forced through fixSubTableOverFlows on small fonts (odd/even class counts, subtables followed by others) and shaped before/after (testing). Known finding F3.",
         "Rocq proof of offset exactness and placement over a byte-exact packer model + overflow/compaction shaping sweeps"),
 "C07": ("Gallina models of substitution-lookup subsetting, of the WHOLE GSUB glyph closure (single/multiple/alternate/ligature subtables, "
         "contextual and chaining lookups of formats 1-3 with nested lookup calls, iterated to a fixpoint), of ClassDef.subset with class "
         "remapping and of VarStore.subset_varidxes, tied to the subset/varStore methods by differential runs (closure on GSUB tables compiled "
         "by feaLib from generated programs). Theorems: the computed closure contains the request and is closed under every substitution and "
         "ligature subtable of every directly applied lookup, for any lookup graph; on a closed set the subset lookup rewrites every retained "
         "glyph, hence every text, exactly as the original; a subset ligature subtable shapes every retained text as the original does (earlier ligatures still win; the subtable's reading is tied to HarfBuzz); class remapping preserves the class partition of retained glyphs; every used "
         "variation index is mapped to a row holding the same deltas. All other tables (glyf/CFF/gvar/HVAR/GPOS/GDEF/cmap...) are checked on "
         "the implementation by subsetting corpus fonts and generated feature programs and comparing every text over the request, outlines and "
         "advances at several locations through HarfBuzz (testing).",
         "Rocq proof of closure/subset/remap preservation over a model tied by differential correspondence + HarfBuzz subset sweeps"),
 "C08": ("The instancing arithmetic (normalizeValue, renormalizeValue with user-space distances, supportScalar, _solve/rebaseTent, "
         "piecewiseLinearMap) is C09's Gallina model, tied to the code by exact differential runs. Theorems: for every restricted range with "
         "moved default on an axis with unequal user-space distances, the new normalised coordinate of any retained point equals what "
         "normalising its user-space position against the new (minimum, default, maximum) gives -- user coordinates keep their meaning; "
         "pinning an axis (min = default = max) makes rebaseTent return at most the always-on delta set scaled by the tent's value at the "
         "pin, for every tent shape and every case of _solve; and _solve is EXACT (solve_exact): for every tent continuous on the new range "
         "and every x in it, the returned pieces (in old coordinates) sum to the original tent at x -- all mirroring / clipping / crossing / "
         "closing-tent / EPSILON cases in one theorem; END TO END (rebase_exact) rebaseTent's output, evaluated with OpenType region "
         "semantics at the renormalised location, equals the original tent on the whole new range, for every limit triple and all positive "
         "user-space distances (pieces spanning the old default are shown to come in rise/fall pairs). Table-level instancing (gvar, HVAR, MVAR, GPOS/GDEF, avar, fvar, CFF2, GSUB "
         "FeatureVariations) is checked on the implementation: generated variable fonts (asymmetric axes, intermediate masters, avar, HVAR, "
         "variable kerning, conditional substitutions) and corpus fonts under random pins, ranges and moved defaults, compared through "
         "HarfBuzz at the same user-space locations within the rounding budget (testing). Known finding F17.",
         "Rocq proof of user-space meaning of renormalisation and of pinning over the C09 model tied by differential correspondence + HarfBuzz instancing sweeps"),
 "C10": ("Gallina model of VariationModel.getDeltas WITH rounding (each delta computed from the already rounded earlier ones) and of "
         "evaluation at a master location, on top of C09's model; tied to the code by exact differential runs over random master sets (the "
         "implementation's own supports and scalars at every master are compared with the model's weight rows). Theorem: for any number of "
         "masters and any weights the built value at master k differs from master k by at most the error of ONE rounding (1/2 for otRound) -- "
         "errors do not accumulate. Also modelled, over exact rationals, and tied by exact correspondence: _locationsToRegions, "
         "_computeMasterSupports (box narrowing with the running best-ratio dict) and _computeDeltaWeights; theorems for ANY number of "
         "masters and axes: a support is 1 at its own master and 0 at every earlier master, hence interpolating the deltas with the scalars "
         "of all supports at master k gives master k (hypotheses: distinct locations inside the axis ranges, fewer axes first -- checked on "
         "what VariationModel passes to the computation); the master order itself (getMasterLocationsSortKeyFunc + sorted, axisOrder listing every axis) is modelled and tied by exact correspondence, and proved to put fewer axes first and to lose nothing, which discharges the ordering hypothesis (model_reproduces_masters_in_model_order). gvar/HVAR/MVAR/CFF2/GPOS merging and avar construction are checked "
         "on the implementation: generated designspaces (axis maps, intermediate/corner/sparse masters, sources in random order, TrueType and "
         "CFF, per-master kerning exceptions, anchors, metrics) built with varLib.build and compared through HarfBuzz at every master's "
         "user-space location (testing).",
         "Rocq proof of master reproduction (supports, delta weights, non-accumulating rounding) over a model tied by differential correspondence + HarfBuzz master-reproduction sweeps"),
 "C11": ("Gallina models of value-record printing and parsing (ast.ValueRecord.asFea / parse_valuerecord_, horizontal and vertical) and of "
         "the compilation of a chaining contextual rule into stored Backtrack/Input/LookAhead arrays with the OpenType matching rule, tied to "
         "feaLib/otlLib by differential runs (formats 1, 2 and 3 through ChainContextualBuilder). Theorems: a printed value record parses "
         "back, in the same context, to a record with the same meaning and printing is a fixed point; a compiled chaining rule matches at "
         "exactly the positions where the rule as written matches, for glyph, class and coverage elements; the ligature subtable built from a set of rules applies at every position a longest matching rule, whatever the order of the rules (reading of the subtable tied to HarfBuzz). The rest of the language is "
         "checked on the implementation: every corpus .fea and generated programs printed, re-parsed, re-printed and compiled both ways, and "
         "generated GSUB/GPOS programs (two families: nested contextual calls and positioning; GDEF marks with lookup flags, inline rules and "
         "reverse chaining; rules of different kinds written inline in one feature, incl. deletions; glyph-class syntax) shaped by HarfBuzz against reference interpreters of the rule text (testing). F24 (ligatures mixed with deletions) repaired by a fix: commit.",
         "Rocq proof of value-record round trip, chaining-rule and ligature-rule compilation over a model tied by differential correspondence + asFea/HarfBuzz sweeps"),
}

def main():
    props = [json.loads(l) for l in open(os.path.join(VERIF, "properties.jsonl"))]
    checks = []; na = []
    for p in props:
        pid = p["id"]
        if pid in CLAIMED:
            text, tech = CLAIMED[pid]
            checks.append({
                "property_id": pid,
                "quick_cmd": "%s harness/vcheck.py %s --tier quick" % (PY, pid),
                "thorough_cmd": "%s harness/vcheck.py %s --tier thorough" % (PY, pid),
                "evidence_file": "evidence/%s.json" % pid,
                "replay_cmd_template": "%s harness/vcheck.py %s --replay {path}" % (PY, pid),
                "engine": "rocq-model+correspondence",
                "level_claimed": {"category": "proof", "text": text, "design_ref": "DESIGN.md §%s" % pid},
                "level_note": NOTE,
                "technique": tech,
            })
        else:
            na.append({"property_id": pid, "reason": "not claimed yet: the Rocq model and correspondence check for this property are still under construction (DESIGN.md section 9 gives the order of work)"})
    m = {
        "version": 1,
        "setup_cmd": "%s harness/setup.py" % PY,
        "hooks": {"guard": "FONTTOOLS_VERIF", "enable": "no source hooks are needed: checks import /repo/Lib directly (PYTHONPATH=/repo/Lib forced by harness/vcheck.py) and wrap methods from the harness process",
                  "baseline_off_cmd": "cd /repo && PYTHONPATH=/repo/Lib PYTHONDONTWRITEBYTECODE=1 /venv/bin/python -m pytest -ra -q -p no:cacheprovider --timeout=900 --continue-on-collection-errors",
                  "source_commits": [], "add_only": True},
        "engines": [{"name": "rocq-model+correspondence", "path": "coq/ harness/ ocaml/ tools/",
                     "serves_properties": sorted(CLAIMED),
                     "kind_free_text": "Coq 8.16 theories (Model/Proofs/Props per property), extraction to an OCaml driver, Python correspondence + oracle harness"}],
        "checks": checks,
        "not_applicable": na,
        "notes": "Every check re-runs the data translator on /repo, re-checks the property's theorems (full .vo build, Print Assumptions parsed, forbidden-token gate), rebuilds the extracted model and runs the correspondence + implementation oracles against /repo/Lib.",
    }
    json.dump(m, open(os.path.join(VERIF, "MANIFEST.json"), "w"), indent=1)
    print("MANIFEST.json: %d checks, %d not claimed" % (len(checks), len(na)))

if __name__ == "__main__":
    main()
