#!/bin/bash
# try_seed.sh <patch.diff> <ID> [tier]: apply a seeded change to /repo, run the check, always revert
set -u
patch="$1"; id="$2"; tier="${3:-quick}"
cd /verif
git -C /repo apply "$patch" || { echo "patch does not apply"; exit 2; }
/venv/bin/python harness/vcheck.py "$id" --tier "$tier" 2>&1 | grep -E "VIOLATION|KNOWN|: (ok|FAIL)|proofs|correspondence|oracle" | head -12
git -C /repo checkout -- . ; git -C /repo status --short | head -3
