#!/bin/bash
# confirm_seed.sh <src_dir with patch.diff demo.py meta.json> <seed-name>
# Confirms a seeded change in a scratch worktree (tests pass with it, demo fails with it and passes
# without) and stores it under /verif/seeded/<seed-name>/ with the confirmation appended to meta.json.
set -u
src="$1"; name="$2"
wt=/tmp/scratch_seed_$$
git -C /repo worktree add --detach "$wt" HEAD >/dev/null 2>&1 || exit 2
export PYTHONDONTWRITEBYTECODE=1 PYTHONPATH="$wt/Lib" PYTHONHASHSEED=0
cd "$wt"
/venv/bin/python "$src/demo.py" >/tmp/cs_$$.a 2>&1; d0=$?
git apply "$src/patch.diff" || { echo "patch does not apply"; git -C /repo worktree remove --force "$wt"; exit 2; }
/venv/bin/python "$src/demo.py" >/tmp/cs_$$.b 2>&1; d1=$?
t=$(/venv/bin/python -m pytest -q -p no:cacheprovider -n 12 --timeout=900 2>&1 | tail -1)
cd /verif
git -C /repo worktree remove --force "$wt"
mkdir -p /verif/seeded/"$name"
cp "$src/patch.diff" "$src/demo.py" /verif/seeded/"$name"/
/venv/bin/python - "$src/meta.json" "/verif/seeded/$name/meta.json" "$d0" "$d1" "$t" <<'PY'
import json,sys
m=json.load(open(sys.argv[1]))
m["confirmed"]={"demo_exit_without_patch":int(sys.argv[3]),"demo_exit_with_patch":int(sys.argv[4]),"test_suite_with_patch":sys.argv[5],
 "how":"scratch git worktree of /repo HEAD under /tmp; PYTHONPATH=<worktree>/Lib; pytest -n 12 full suite with the patch applied"}
json.dump(m,open(sys.argv[2],"w"),indent=1)
PY
echo "$name: demo without=$d0 with=$d1 tests: $t"
rm -f /tmp/cs_$$.a /tmp/cs_$$.b
